import sys, time, json
sys.path.insert(0,'/verif/kani'); sys.path.insert(0,'/verif/vpipe')
import krun
names = sys.argv[1:] or list(krun.all_harnesses())
t=time.time()
try:
    r=krun.run_harnesses(names,'/repo','/verif/out/kall',prop='X', jobs=10, harness_timeout=900)
    for h in r['harnesses']: print(h['name'],h['status'],h['time_s'],h['covers'],h['checks'], h['failed_checks'][:3])
    for f in r['failures']: print('FAIL', f['harness'], f.get('failing_input_found'), (f.get('kani_output') or '')[:300])
except Exception as e:
    print('EXC',e)
print('wall', time.time()-t)
