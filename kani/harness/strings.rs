//! K-str: `collections::String` -- UTF-8 validity after every operation and agreement with the byte-level model,
//! BOUNDED: strings of at most 3 characters drawn from {1,2,3-byte chars}, every byte index as argument.
use super::util::*;
use crate::collections::{String, Vec};
use crate::*;
use core::alloc::Layout;
use core::ptr::NonNull;

fn no_slow<const MIN_ALIGN: usize>(_b: &Bump<MIN_ALIGN>, _l: Layout) -> Option<NonNull<u8>> { kani::assume(false); None }

const CHARS: [char; 3] = ['a', 'é', '€'];      // 1, 2 and 3 bytes
fn any_char() -> char { let i: usize = kani::any(); kani::assume(i < 3); CHARS[i] }
fn valid(s: &String) -> bool { core::str::from_utf8(s.as_bytes()).is_ok() }
/// string of 1..=2 symbolic characters
fn mk<'a>(b: &'a Bump) -> (String<'a>, [char; 2], usize) {
    let c = [any_char(), any_char()];
    let n: usize = kani::any(); kani::assume(n >= 1 && n <= 2);
    let mut s = String::with_capacity_in(8, b);
    s.push(c[0]); if n == 2 { s.push(c[1]); }
    (s, c, n)
}
fn blen(c: &[char; 2], n: usize) -> usize { c[0].len_utf8() + if n == 2 { c[1].len_utf8() } else { 0 } }
fn is_boundary(c: &[char; 2], n: usize, i: usize) -> bool { i == 0 || i == c[0].len_utf8() || (n == 2 && i == blen(c, n)) || (n == 1 && i == blen(c, n)) }

#[kani::proof]
#[kani::unwind(12)]
#[kani::stub(Bump::alloc_layout_slow, no_slow)]
fn k_str_push_pop_insert_remove() {
    let b = mk_bump::<1>(448);
    let (mut s, c, n) = mk(&b);
    assert!(valid(&s) && s.len() == blen(&c, n));
    let x = any_char();
    let i: usize = kani::any(); kani::assume(i <= s.len() && is_boundary(&c, n, i));
    s.insert(i, x);
    assert!(valid(&s) && s.len() == blen(&c, n) + x.len_utf8(), "C14 insert keeps UTF-8");
    let r = s.remove(i);
    assert!(r == x && valid(&s) && s.len() == blen(&c, n));
    let p = s.pop();
    assert!(p == Some(c[n - 1]) && valid(&s));
    s.push_str("é€");
    assert!(valid(&s));
    kani::cover!(n == 2 && i > 0);
    core::mem::forget(s); core::mem::forget(b);
}
#[kani::proof]
#[kani::unwind(12)]
#[kani::should_panic]
#[kani::stub(Bump::alloc_layout_slow, no_slow)]
fn k_str_insert_non_boundary() {
    let b = mk_bump::<1>(448);
    let (mut s, c, n) = mk(&b);
    let i: usize = kani::any(); kani::assume(i > s.len() || !is_boundary(&c, n, i));
    s.insert(i, 'x');
    core::mem::forget(s); core::mem::forget(b);
}

#[kani::proof]
#[kani::unwind(12)]
#[kani::stub(Bump::alloc_layout_slow, no_slow)]
fn k_str_truncate_split_drain_replace() {
    let b = mk_bump::<1>(448);
    let (mut s, c, n) = mk(&b);
    let total = blen(&c, n);
    let i: usize = kani::any(); kani::assume(i <= total && is_boundary(&c, n, i));
    let which: u8 = kani::any(); kani::assume(which < 4);
    if which == 0 {
        s.truncate(i); assert!(valid(&s) && s.len() == i);
    } else if which == 1 {
        let t = s.split_off(i); assert!(valid(&s) && valid(&t) && s.len() == i && t.len() == total - i);
        core::mem::forget(t);
    } else if which == 2 {
        { let _d = s.drain(..i); }
        assert!(valid(&s) && s.len() == total - i);
    } else {
        // inclusive end: `..=j` is valid exactly when j+1 is a boundary
        if i > 0 { s.replace_range(..=i - 1, "€"); assert!(valid(&s) && s.len() == total - i + 3, "C14 replace_range(..=j) with j+1 on a boundary is accepted"); }
        else { s.replace_range(..i, "é"); assert!(valid(&s) && s.len() == total + 2); }
    }
    kani::cover!(which == 3 && i > 1);
    core::mem::forget(s); core::mem::forget(b);
}
#[kani::proof]
#[kani::unwind(12)]
#[kani::should_panic]
#[kani::stub(Bump::alloc_layout_slow, no_slow)]
fn k_str_replace_range_inclusive_non_boundary() {
    let b = mk_bump::<1>(448);
    let (mut s, c, n) = mk(&b);
    let j: usize = kani::any(); kani::assume(j < s.len() && !is_boundary(&c, n, j + 1));
    s.replace_range(..=j, "x");     // std panics: the end of the range splits a character
    core::mem::forget(s); core::mem::forget(b);
}

#[kani::proof]
#[kani::unwind(12)]
#[kani::stub(Bump::alloc_layout_slow, no_slow)]
fn k_str_retain() {
    let b = mk_bump::<1>(448);
    let (mut s, c, n) = mk(&b);
    let drop_first: bool = kani::any();
    let mut calls = 0;
    s.retain(|ch| { calls += 1; !(drop_first && calls == 1) && ch != '€' });
    assert!(valid(&s) && calls == n);
    let mut exp = 0; let mut k = 0;
    while k < 2 { if k < n && !(drop_first && k == 0) && c[k] != '€' { exp += c[k].len_utf8(); } k += 1; }
    assert!(s.len() == exp);
    kani::cover!(n == 2 && exp == 1);
    core::mem::forget(s); core::mem::forget(b);
}

/// decoders: every byte string of length <= 3 -- the result is valid UTF-8, equals the input when the input is valid, and
/// from_utf8 accepts exactly what core::str::from_utf8 accepts
#[kani::proof]
#[kani::unwind(12)]
#[kani::stub(Bump::alloc_layout_slow, no_slow)]
fn k_str_from_utf8_lossy() {
    let b = mk_bump::<1>(448);
    let bytes: [u8; 3] = kani::any();
    let n: usize = kani::any(); kani::assume(n <= 3);
    let input = &bytes[..n];
    let std_ok = core::str::from_utf8(input).is_ok();
    let s = String::from_utf8_lossy_in(input, &b);
    assert!(valid(&s), "C14 lossy decoding always yields valid UTF-8");
    if std_ok { assert!(s.as_bytes() == input, "C14 valid input is kept verbatim"); }
    else { assert!(s.len() >= 3, "C14 invalid input gets at least one U+FFFD"); }
    let mut v: Vec<u8> = Vec::with_capacity_in(4, &b);
    let mut k = 0; while k < 3 { if k < n { v.push(bytes[k]); } k += 1; }
    let r = String::from_utf8(v);
    assert!(r.is_ok() == std_ok, "C14 from_utf8 accepts exactly what std accepts");
    kani::cover!(!std_ok && n == 3 && bytes[0] == 0xED);
    kani::cover!(std_ok && n == 3 && bytes[0] >= 0xE0);
    core::mem::forget(r); core::mem::forget(s); core::mem::forget(b);
}

#[kani::proof]
#[kani::unwind(12)]
#[kani::stub(Bump::alloc_layout_slow, no_slow)]
fn k_str_from_utf16() {
    let b = mk_bump::<1>(448);
    let u: [u16; 2] = kani::any();
    let n: usize = kani::any(); kani::assume(n <= 2);
    let r = String::from_utf16_in(&u[..n], &b);
    // reference: a lone or misordered surrogate is an error
    let hi = |x: u16| x >= 0xD800 && x <= 0xDBFF;
    let lo = |x: u16| x >= 0xDC00 && x <= 0xDFFF;
    let std_ok = match n { 0 => true, 1 => !hi(u[0]) && !lo(u[0]), _ => (hi(u[0]) && lo(u[1])) || (!hi(u[0]) && !lo(u[0]) && !hi(u[1]) && !lo(u[1])) };
    assert!(r.is_ok() == std_ok, "C14 from_utf16 accepts exactly well-formed UTF-16");
    if let Ok(s) = &r { assert!(valid(s)); }
    kani::cover!(std_ok && n == 2 && hi(u[0]));
    core::mem::forget(r); core::mem::forget(b);
}

