//! K-str: `collections::String` -- UTF-8 validity after every operation and agreement with the byte-level model.
//! BOUNDED: the text "aé€" (1-, 2- and 3-byte characters), selected boundary / non-boundary byte indices (concrete: symbolic
//! indices or bytes make every memmove and the decoder loops symbolic, > 9 GB / 15 min per harness in CBMC);
//! decoders on byte strings and u16 pairs chosen by structure (every lead-byte class, surrogates, overlongs, truncations).
use super::util::*;
use crate::collections::{String, Vec};
use crate::*;
use core::alloc::Layout;
use core::ptr::NonNull;

fn no_slow<const MIN_ALIGN: usize>(_b: &Bump<MIN_ALIGN>, _l: Layout) -> Option<NonNull<u8>> { kani::assume(false); None }

const TEXT: &str = "a\u{e9}\u{20ac}";            // a(1) é(2) €(3): bytes 61 | c3 a9 | e2 82 ac
const LEN: usize = 6;
fn boundary(i: usize) -> bool { i == 0 || i == 1 || i == 3 || i == 6 }
/// the definition of well-formed UTF-8 (Unicode 15, table 3-7), written as a plain byte loop: the reference the forked code
/// is compared against (std's validator is word-at-a-time and costs CBMC minutes per call)
fn utf8_ok(b: &[u8]) -> bool {
    let n = b.len();
    let mut i = 0;
    while i < n {
        let c = b[i];
        let need = if c < 0x80 { 0 } else if c >= 0xC2 && c <= 0xDF { 1 } else if c >= 0xE0 && c <= 0xEF { 2 } else if c >= 0xF0 && c <= 0xF4 { 3 } else { return false; };
        if i + need >= n { return false; }
        if need >= 1 {
            let c1 = b[i + 1];
            let (lo, hi) = if c == 0xE0 { (0xA0, 0xBF) } else if c == 0xED { (0x80, 0x9F) } else if c == 0xF0 { (0x90, 0xBF) } else if c == 0xF4 { (0x80, 0x8F) } else { (0x80, 0xBF) };
            if c1 < lo || c1 > hi { return false; }
        }
        if need >= 2 { let c2 = b[i + 2]; if c2 < 0x80 || c2 > 0xBF { return false; } }
        if need >= 3 { let c3 = b[i + 3]; if c3 < 0x80 || c3 > 0xBF { return false; } }
        i += need + 1;
    }
    true
}
fn valid(s: &String) -> bool { utf8_ok(s.as_bytes()) }
fn mk<'a>(b: &'a Bump) -> String<'a> { let mut s = String::with_capacity_in(16, b); s.push('a'); s.push('\u{e9}'); s.push_str("\u{20ac}"); s }
fn bytes_eq(s: &String, exp: &[u8]) -> bool { s.as_bytes() == exp }


/// every check compares the bytes with the expected CONCRETE text (which is well-formed UTF-8 by construction): exact
/// contents, and far cheaper in CBMC than running a validator over heap bytes
fn is(s: &String, exp: &str) -> bool { s.as_bytes() == exp.as_bytes() }

#[kani::proof]
#[kani::unwind(24)]
#[kani::stub(Bump::alloc_layout_slow, no_slow)]
fn k_str_insert_mid() { let b = mk_bump::<1>(448); let mut s = mk(&b); s.insert(3, '\u{e9}'); assert!(is(&s, "a\u{e9}\u{e9}\u{20ac}"), "C14 insert at a boundary"); kani::cover!(true); core::mem::forget(s); core::mem::forget(b); }
#[kani::proof]
#[kani::unwind(24)]
#[kani::stub(Bump::alloc_layout_slow, no_slow)]
fn k_str_insert_ends() {
    let b = mk_bump::<1>(448);
    let mut s = mk(&b); s.insert(0, '\u{20ac}'); assert!(is(&s, "\u{20ac}a\u{e9}\u{20ac}"));
    let mut t = mk(&b); t.insert_str(6, "z\u{e9}"); assert!(is(&t, "a\u{e9}\u{20ac}z\u{e9}"));
    kani::cover!(true); core::mem::forget(s); core::mem::forget(t); core::mem::forget(b);
}
#[kani::proof]
#[kani::unwind(24)]
#[kani::stub(Bump::alloc_layout_slow, no_slow)]
fn k_str_remove() {
    let b = mk_bump::<1>(448);
    let mut s = mk(&b); let r = s.remove(1); assert!(r == '\u{e9}' && is(&s, "a\u{20ac}"), "C14 remove returns the char and closes the gap");
    kani::cover!(true); core::mem::forget(s); core::mem::forget(b);
}
#[kani::proof]
#[kani::unwind(24)]
#[kani::stub(Bump::alloc_layout_slow, no_slow)]
fn k_str_push_pop() {
    let b = mk_bump::<1>(448);
    let mut s = mk(&b);
    assert!(s.pop() == Some('\u{20ac}') && is(&s, "a\u{e9}"));
    s.push('\u{10348}');
    assert!(s.len() == 7 && s.as_bytes()[3] == 0xF0 && s.as_bytes()[6] == 0x88);
    kani::cover!(true); core::mem::forget(s); core::mem::forget(b);
}
fn at_non_boundary<F: FnOnce(&mut String, usize)>(f: F) { let b = mk_bump::<1>(448); let mut s = mk(&b); f(&mut s, 2); core::mem::forget(s); core::mem::forget(b); }
#[kani::proof]
#[kani::unwind(24)]
#[kani::should_panic]
#[kani::stub(Bump::alloc_layout_slow, no_slow)]
fn k_str_insert_non_boundary() { at_non_boundary(|s, i| s.insert(i, 'x')) }
#[kani::proof]
#[kani::unwind(24)]
#[kani::should_panic]
#[kani::stub(Bump::alloc_layout_slow, no_slow)]
fn k_str_truncate_non_boundary() { at_non_boundary(|s, i| s.truncate(i)) }
#[kani::proof]
#[kani::unwind(24)]
#[kani::should_panic]
#[kani::stub(Bump::alloc_layout_slow, no_slow)]
fn k_str_split_off_non_boundary() { at_non_boundary(|s, i| { let t = s.split_off(i); core::mem::forget(t); }) }
#[kani::proof]
#[kani::unwind(24)]
#[kani::should_panic]
#[kani::stub(Bump::alloc_layout_slow, no_slow)]
fn k_str_replace_range_inclusive_non_boundary() { at_non_boundary(|s, _i| s.replace_range(..=3, "x")) }   // byte 3 is the first byte of the 3-byte char: `..=3` ends inside it
#[kani::proof]
#[kani::unwind(24)]
#[kani::should_panic]
#[kani::stub(Bump::alloc_layout_slow, no_slow)]
fn k_str_remove_past_end() { at_non_boundary(|s, _i| { s.remove(LEN); }) }

#[kani::proof]
#[kani::unwind(24)]
#[kani::stub(Bump::alloc_layout_slow, no_slow)]
fn k_str_truncate_split() {
    let b = mk_bump::<1>(448);
    let mut s = mk(&b);
    let t = s.split_off(3); assert!(is(&s, "a\u{e9}") && is(&t, "\u{20ac}"));
    s.truncate(1); assert!(is(&s, "a"));
    s.clear(); assert!(s.len() == 0 && s.is_empty());
    kani::cover!(true);
    core::mem::forget(s); core::mem::forget(t); core::mem::forget(b);
}
#[kani::proof]
#[kani::unwind(24)]
#[kani::stub(Bump::alloc_layout_slow, no_slow)]
fn k_str_drain() { let b = mk_bump::<1>(448); let mut s = mk(&b); { let _d = s.drain(..1); } assert!(is(&s, "\u{e9}\u{20ac}")); kani::cover!(true); core::mem::forget(s); core::mem::forget(b); }
#[kani::proof]
#[kani::unwind(24)]
#[kani::stub(Bump::alloc_layout_slow, no_slow)]
fn k_str_replace_range() {
    let b = mk_bump::<1>(448);
    let mut u = mk(&b);
    // inclusive end: `..=j` is valid exactly when j+1 is a boundary (here j = 2, the last byte of the 2-byte char)
    u.replace_range(..=2, "\u{20ac}");
    assert!(is(&u, "\u{20ac}\u{20ac}"), "C14 replace_range(..=j) with j+1 on a boundary is accepted");
    kani::cover!(true); core::mem::forget(u); core::mem::forget(b);
}
#[kani::proof]
#[kani::unwind(24)]
#[kani::stub(Bump::alloc_layout_slow, no_slow)]
fn k_str_retain() {
    let b = mk_bump::<1>(448);
    let mut s = mk(&b);
    let mut calls = 0;
    s.retain(|ch| { calls += 1; ch != '\u{e9}' });
    assert!(calls == 3 && is(&s, "a\u{20ac}"), "C14 retain keeps exactly the selected characters");
    kani::cover!(true);
    core::mem::forget(s); core::mem::forget(b);
}

/// decoders on inputs chosen by structure: valid input is kept verbatim, invalid input is repaired with exactly the U+FFFD
/// sequence std produces (one per maximal invalid subpart), and from_utf8 accepts exactly the well-formed inputs
fn lossy_one(input: &[u8], exp: &[u8]) {
    let b = mk_bump::<1>(448);
    let ok = utf8_ok(input);
    let s = String::from_utf8_lossy_in(input, &b);
    assert!(s.as_bytes() == exp, "C14 from_utf8_lossy_in produces the text std produces");
    let mut v: Vec<u8> = Vec::with_capacity_in(4, &b);
    let mut k = 0; while k < input.len() { v.push(input[k]); k += 1; }
    let r = String::from_utf8(v);
    assert!(r.is_ok() == ok, "C14 from_utf8 accepts exactly what std accepts");
    kani::cover!(true);
    core::mem::forget(r); core::mem::forget(s); core::mem::forget(b);
}
const FFFD: [u8; 3] = [0xEF, 0xBF, 0xBD];
#[kani::proof]
#[kani::unwind(24)]
#[kani::stub(Bump::alloc_layout_slow, no_slow)]
fn k_str_lossy_valid() { lossy_one(&[0x61, 0xC3, 0xA9], &[0x61, 0xC3, 0xA9]); }
#[kani::proof]
#[kani::unwind(24)]
#[kani::stub(Bump::alloc_layout_slow, no_slow)]
fn k_str_lossy_valid_edges() { lossy_one(&[0xED, 0x9F, 0xBF], &[0xED, 0x9F, 0xBF]); lossy_one(&[0xEE, 0x80, 0x80], &[0xEE, 0x80, 0x80]); }   // U+D7FF / U+E000 around the surrogates
#[kani::proof]
#[kani::unwind(24)]
#[kani::stub(Bump::alloc_layout_slow, no_slow)]
fn k_str_lossy_surrogate() { lossy_one(&[0xED, 0xA0, 0x80], &[0xEF, 0xBF, 0xBD, 0xEF, 0xBF, 0xBD, 0xEF, 0xBF, 0xBD]); }   // encoded surrogate: three invalid subparts
#[kani::proof]
#[kani::unwind(24)]
#[kani::stub(Bump::alloc_layout_slow, no_slow)]
fn k_str_lossy_truncated() { lossy_one(&[0xE2, 0x82, 0x41], &[0xEF, 0xBF, 0xBD, 0x41]); }    // truncated sequence followed by ASCII
#[kani::proof]
#[kani::unwind(24)]
#[kani::stub(Bump::alloc_layout_slow, no_slow)]
fn k_str_lossy_overlong() { lossy_one(&[0xC0, 0x80, 0x41], &[0xEF, 0xBF, 0xBD, 0xEF, 0xBF, 0xBD, 0x41]); }

#[kani::proof]
#[kani::unwind(24)]
#[kani::stub(Bump::alloc_layout_slow, no_slow)]
fn k_str_utf16() {
    let b = mk_bump::<1>(448);
    let ok2 = String::from_utf16_in(&[0xD800, 0xDF48], &b);   // surrogate pair -> U+10348
    assert!(ok2.is_ok() && ok2.as_ref().unwrap().len() == 4 && ok2.as_ref().unwrap().as_bytes()[0] == 0xF0);
    assert!(String::from_utf16_in(&[0xD800, 0x0061], &b).is_err(), "C14 lone high surrogate refused");
    assert!(String::from_utf16_in(&[0xDC00], &b).is_err(), "C14 lone low surrogate refused");
    kani::cover!(true);
    core::mem::forget(ok2); core::mem::forget(b);
}

