//! K-str: `collections::String` -- UTF-8 validity after every operation and agreement with the byte-level model.
//! BOUNDED: the text "aé€" (1-, 2- and 3-byte characters) with EVERY byte index enumerated concretely as argument;
//! decoders on all byte strings of length <= 3 / all u16 pairs (symbolic).
use super::util::*;
use crate::collections::{String, Vec};
use crate::*;
use core::alloc::Layout;
use core::ptr::NonNull;

fn no_slow<const MIN_ALIGN: usize>(_b: &Bump<MIN_ALIGN>, _l: Layout) -> Option<NonNull<u8>> { kani::assume(false); None }

const TEXT: &str = "a\u{e9}\u{20ac}";            // a(1) é(2) €(3): bytes 61 | c3 a9 | e2 82 ac
const LEN: usize = 6;
fn boundary(i: usize) -> bool { i == 0 || i == 1 || i == 3 || i == 6 }
/// the definition of well-formed UTF-8 (Unicode 15, table 3-7), written as a plain byte loop: the reference the forked code
/// is compared against (std's validator is word-at-a-time and costs CBMC minutes per call)
fn utf8_ok(b: &[u8]) -> bool {
    let n = b.len();
    let mut i = 0;
    while i < n {
        let c = b[i];
        let need = if c < 0x80 { 0 } else if c >= 0xC2 && c <= 0xDF { 1 } else if c >= 0xE0 && c <= 0xEF { 2 } else if c >= 0xF0 && c <= 0xF4 { 3 } else { return false; };
        if i + need >= n { return false; }
        if need >= 1 {
            let c1 = b[i + 1];
            let (lo, hi) = if c == 0xE0 { (0xA0, 0xBF) } else if c == 0xED { (0x80, 0x9F) } else if c == 0xF0 { (0x90, 0xBF) } else if c == 0xF4 { (0x80, 0x8F) } else { (0x80, 0xBF) };
            if c1 < lo || c1 > hi { return false; }
        }
        if need >= 2 { let c2 = b[i + 2]; if c2 < 0x80 || c2 > 0xBF { return false; } }
        if need >= 3 { let c3 = b[i + 3]; if c3 < 0x80 || c3 > 0xBF { return false; } }
        i += need + 1;
    }
    true
}
fn valid(s: &String) -> bool { utf8_ok(s.as_bytes()) }
fn mk<'a>(b: &'a Bump) -> String<'a> { let mut s = String::with_capacity_in(16, b); s.push('a'); s.push('\u{e9}'); s.push_str("\u{20ac}"); s }
fn bytes_eq(s: &String, exp: &[u8]) -> bool { s.as_bytes() == exp }

#[kani::proof]
#[kani::unwind(24)]
#[kani::stub(Bump::alloc_layout_slow, no_slow)]
fn k_str_push_pop_insert_remove() {
    let b = mk_bump::<1>(448);
    let s0 = mk(&b);
    assert!(valid(&s0) && s0.len() == LEN && bytes_eq(&s0, TEXT.as_bytes()));
    let idx = [0usize, 3, 6];
    let mut ii = 0;
    while ii < 3 {
        let i = idx[ii];
        ii += 1;
        {
            let mut s = mk(&b);
            s.insert(i, '\u{e9}');
            assert!(valid(&s) && s.len() == LEN + 2, "C14 insert at a boundary keeps UTF-8");
            assert!(s.as_bytes()[i] == 0xC3 && s.as_bytes()[i + 1] == 0xA9);
            let r = s.remove(i);
            assert!(r == '\u{e9}' && bytes_eq(&s, TEXT.as_bytes()));
            s.insert_str(i, "z\u{20ac}");
            assert!(valid(&s) && s.len() == LEN + 4);
            core::mem::forget(s);
        }
    }
    let mut s = mk(&b);
    assert!(s.pop() == Some('\u{20ac}') && s.len() == 3 && valid(&s));
    assert!(s.pop() == Some('\u{e9}') && s.pop() == Some('a') && s.pop().is_none());
    kani::cover!(true);
    core::mem::forget(s); core::mem::forget(s0); core::mem::forget(b);
}
fn at_non_boundary<F: FnOnce(&mut String, usize)>(f: F) { let b = mk_bump::<1>(448); let mut s = mk(&b); f(&mut s, 2); core::mem::forget(s); core::mem::forget(b); }
#[kani::proof]
#[kani::unwind(24)]
#[kani::should_panic]
#[kani::stub(Bump::alloc_layout_slow, no_slow)]
fn k_str_insert_non_boundary() { at_non_boundary(|s, i| s.insert(i, 'x')) }
#[kani::proof]
#[kani::unwind(24)]
#[kani::should_panic]
#[kani::stub(Bump::alloc_layout_slow, no_slow)]
fn k_str_truncate_non_boundary() { at_non_boundary(|s, i| s.truncate(i)) }
#[kani::proof]
#[kani::unwind(24)]
#[kani::should_panic]
#[kani::stub(Bump::alloc_layout_slow, no_slow)]
fn k_str_split_off_non_boundary() { at_non_boundary(|s, i| { let t = s.split_off(i); core::mem::forget(t); }) }
#[kani::proof]
#[kani::unwind(24)]
#[kani::should_panic]
#[kani::stub(Bump::alloc_layout_slow, no_slow)]
fn k_str_replace_range_inclusive_non_boundary() { at_non_boundary(|s, _i| s.replace_range(..=3, "x")) }   // byte 3 is the first byte of '€': `..=3` ends inside it
#[kani::proof]
#[kani::unwind(24)]
#[kani::should_panic]
#[kani::stub(Bump::alloc_layout_slow, no_slow)]
fn k_str_remove_past_end() { at_non_boundary(|s, _i| { s.remove(LEN); }) }

#[kani::proof]
#[kani::unwind(24)]
#[kani::stub(Bump::alloc_layout_slow, no_slow)]
fn k_str_truncate_split_drain_replace() {
    let b = mk_bump::<1>(448);
    let mut i = 0;
    while i <= LEN {
        if boundary(i) {
            let mut s = mk(&b);
            s.truncate(i); assert!(valid(&s) && s.len() == i);
            let mut s = mk(&b);
            let t = s.split_off(i); assert!(valid(&s) && valid(&t) && s.len() == i && t.len() == LEN - i);
            let mut s = mk(&b);
            { let _d = s.drain(..i); }
            assert!(valid(&s) && s.len() == LEN - i);
            let mut s = mk(&b);
            s.replace_range(i.., "\u{e9}"); assert!(valid(&s) && s.len() == i + 2);
            if i > 0 {
                // inclusive end: `..=j` is valid exactly when j+1 is a boundary
                let mut s = mk(&b);
                s.replace_range(..=i - 1, "\u{20ac}");
                assert!(valid(&s) && s.len() == LEN - i + 3, "C14 replace_range(..=j) with j+1 on a boundary is accepted");
            }
        }
        i += 1;
    }
    let mut s = mk(&b);
    s.clear(); assert!(s.len() == 0 && s.is_empty());
    kani::cover!(true);
    core::mem::forget(s); core::mem::forget(b);
}

#[kani::proof]
#[kani::unwind(24)]
#[kani::stub(Bump::alloc_layout_slow, no_slow)]
fn k_str_retain() {
    let b = mk_bump::<1>(448);
    let mut mask = 0;
    while mask < 8 {
        let mut s = mk(&b);
        let mut calls = 0;
        s.retain(|_ch| { let keep = (mask >> calls) & 1 == 1; calls += 1; keep });
        let exp = (if mask & 1 == 1 { 1 } else { 0 }) + (if mask & 2 == 2 { 2 } else { 0 }) + (if mask & 4 == 4 { 3 } else { 0 });
        assert!(calls == 3 && valid(&s) && s.len() == exp, "C14 retain keeps exactly the selected characters");
        mask += 1;
    }
    kani::cover!(true);
    core::mem::forget(b);
}

/// decoders: every byte string of length <= 3 -- the result is valid UTF-8, equals the input when the input is valid, and
/// from_utf8 accepts exactly what core::str::from_utf8 accepts
fn lossy(n: usize) {
    let b = mk_bump::<1>(448);
    let bytes: [u8; 3] = kani::any();
    let input = &bytes[..n];
    let std_ok = utf8_ok(input);
    let s = String::from_utf8_lossy_in(input, &b);
    assert!(valid(&s), "C14 lossy decoding always yields valid UTF-8");
    if std_ok { assert!(s.as_bytes() == input, "C14 valid input is kept verbatim"); }
    else { assert!(s.len() >= 3, "C14 invalid input gets at least one U+FFFD"); }
    let mut v: Vec<u8> = Vec::with_capacity_in(4, &b);
    let mut k = 0; while k < n { v.push(bytes[k]); k += 1; }
    let r = String::from_utf8(v);
    assert!(r.is_ok() == std_ok, "C14 from_utf8 accepts exactly what std accepts");
    if n == 3 { kani::cover!(!std_ok && bytes[0] == 0xED); kani::cover!(std_ok && bytes[0] >= 0xE0); } else { kani::cover!(true); }
    core::mem::forget(r); core::mem::forget(s); core::mem::forget(b);
}
#[kani::proof]
#[kani::unwind(24)]
#[kani::stub(Bump::alloc_layout_slow, no_slow)]
fn k_str_lossy_3() { lossy(3) }
#[kani::proof]
#[kani::unwind(24)]
#[kani::stub(Bump::alloc_layout_slow, no_slow)]
fn k_str_lossy_2() { lossy(2) }

fn utf16(n: usize) {
    let b = mk_bump::<1>(448);
    let u: [u16; 2] = kani::any();
    let r = String::from_utf16_in(&u[..n], &b);
    // reference: a lone or misordered surrogate is an error
    let hi = |x: u16| x >= 0xD800 && x <= 0xDBFF;
    let lo = |x: u16| x >= 0xDC00 && x <= 0xDFFF;
    let std_ok = match n { 0 => true, 1 => !hi(u[0]) && !lo(u[0]), _ => (hi(u[0]) && lo(u[1])) || (!hi(u[0]) && !lo(u[0]) && !hi(u[1]) && !lo(u[1])) };
    assert!(r.is_ok() == std_ok, "C14 from_utf16 accepts exactly well-formed UTF-16");
    if let Ok(s) = &r { assert!(valid(s)); }
    if n == 2 { kani::cover!(std_ok && hi(u[0])); } else { kani::cover!(true); }
    core::mem::forget(r); core::mem::forget(b);
}
#[kani::proof]
#[kani::unwind(24)]
#[kani::stub(Bump::alloc_layout_slow, no_slow)]
fn k_str_utf16_2() { utf16(2) }
#[kani::proof]
#[kani::unwind(24)]
#[kani::stub(Bump::alloc_layout_slow, no_slow)]
fn k_str_utf16_1() { utf16(1) }
