//! Byte-level harnesses (bounded stand-ins): contents across grow/shrink/realloc, the Allocator glue, slice fills,
//! failed initialisers.
use super::util::*;
use crate::*;
use core::alloc::Layout;
use core::ptr::NonNull;

const N: usize = 8; // max block size with symbolic contents

unsafe fn fill(p: *mut u8, n: usize, vals: &[u8; N]) {
    let mut i = 0;
    while i < N { if i < n { *p.add(i) = vals[i]; } i += 1; }
}
unsafe fn same(p: *const u8, n: usize, vals: &[u8; N]) -> bool {
    let mut ok = true; let mut i = 0;
    while i < N { if i < n && *p.add(i) != vals[i] { ok = false; } i += 1; }
    ok
}

/// a live neighbour (older block, above) with known bytes, then the block under test (CONCRETE layout: symbolic sizes in
/// memcpy cost CBMC > 14 GB) with SYMBOLIC contents
struct Scene<const M: usize> { b: Bump<M>, nb: *mut u8, nb_len: usize, p: NonNull<u8>, old: Layout, vals: [u8; N] }

fn scene<const M: usize>(old_size: usize, old_align: usize, last: bool) -> Scene<M> {
    let b = mk_bump::<M>(448);
    let nb_len = 8;
    let nb = b.try_alloc_layout_fast(Layout::from_size_align(nb_len, 1).unwrap()).unwrap().as_ptr();
    unsafe { let mut i = 0; while i < 8 { *nb.add(i) = 0xC0 + i as u8; i += 1; } }
    let old = Layout::from_size_align(old_size, old_align).unwrap();
    let p = b.try_alloc_layout_fast(old).unwrap();
    let vals: [u8; N] = kani::any();
    unsafe { fill(p.as_ptr(), old.size(), &vals) };
    if !last {
        let _q = b.try_alloc_layout_fast(Layout::from_size_align(1, 1).unwrap()).unwrap();
    }
    Scene { b, nb, nb_len, p, old, vals }
}
fn neighbour_intact<const M: usize>(s: &Scene<M>) -> bool {
    let mut ok = true; let mut i = 0;
    unsafe { while i < 8 { if *s.nb.add(i) != 0xC0 + i as u8 { ok = false; } i += 1; } }
    ok
}

fn shrink_h<const M: usize>(os: usize, oa: usize, ns: usize, na: usize, last: bool) {
    let s = scene::<M>(os, oa, last);
    let new = Layout::from_size_align(ns, na).unwrap();
    let f0 = finger(&s.b);
    let r = unsafe { s.b.shrink(s.p, s.old, new) };
    match r {
        Ok(q) => {
            let qa = q.as_ptr() as usize;
            assert!(qa % new.align() == 0 && qa % M == 0, "C04/C12 shrink result alignment");
            assert!(unsafe { same(q.as_ptr(), new.size(), &s.vals) }, "C02/C12 first new.size bytes preserved");
            assert!(neighbour_intact(&s), "C12 neighbours untouched");
            assert!(finger(&s.b) % M == 0 && finger(&s.b) <= footer_addr(&s.b));
            if s.old.align() >= new.align() {
                let pa = s.p.as_ptr() as usize;
                assert!(pa <= qa && qa + new.size() <= pa + s.old.size(), "C01 stays inside the old block");
                if !last { assert!(qa == pa && finger(&s.b) == f0, "C12 only the last block moves"); }
            }
        }
        Err(_) => {
            assert!(s.old.align() < new.align(), "C12 shrink may fail only when a stricter alignment forces a new block");
            assert!(finger(&s.b) == f0 && unsafe { same(s.p.as_ptr(), s.old.size(), &s.vals) }, "C12 error leaves the block untouched");
        }
    }
    kani::cover!(r.is_ok());
    core::mem::forget(s.b);
}
#[kani::proof]
#[kani::stub(Bump::alloc_layout_slow, slow_refuses_panic)]
fn k_shrink() { shrink_h::<1>(8, 1, 3, 1, true) }
#[kani::proof]
#[kani::stub(Bump::alloc_layout_slow, slow_refuses_panic)]
fn k_shrink_odd() { shrink_h::<1>(7, 2, 2, 2, true) }
#[kani::proof]
#[kani::stub(Bump::alloc_layout_slow, slow_refuses_panic)]
fn k_shrink_m8() { shrink_h::<8>(8, 1, 1, 1, true) }
#[kani::proof]
#[kani::stub(Bump::alloc_layout_slow, slow_refuses_panic)]
fn k_shrink_align() { shrink_h::<1>(6, 1, 5, 4, true) }
#[kani::proof]
#[kani::stub(Bump::alloc_layout_slow, slow_refuses_panic)]
fn k_shrink_notlast() { shrink_h::<1>(8, 1, 3, 1, false) }

fn grow_h<const M: usize>(os: usize, oa: usize, ns: usize, na: usize, last: bool) {
    let s = scene::<M>(os, oa, last);
    let new = Layout::from_size_align(ns, na).unwrap();
    let f0 = finger(&s.b);
    let c0 = s.b.current_chunk_footer.get();
    let r = unsafe { s.b.grow(s.p, s.old, new) };
    match r {
        Ok(q) => {
            let qa = q.as_ptr() as usize;
            assert!(qa % new.align() == 0 && qa % M == 0, "C04/C12 grow result alignment");
            assert!(unsafe { same(q.as_ptr(), s.old.size(), &s.vals) }, "C02/C12 old bytes preserved");
            assert!(neighbour_intact(&s), "C12 neighbours untouched");
            // the whole new block is writable and does not reach into the neighbour
            if new.size() > 0 { unsafe { *q.as_ptr().add(new.size() - 1) = 0x77; *q.as_ptr() = 0x11; } }
            assert!(neighbour_intact(&s), "C01 new block does not overlap the live neighbour");
        }
        Err(_) => {
            assert!(s.b.current_chunk_footer.get() == c0 && finger(&s.b) == f0, "C12 error changes nothing");
            assert!(unsafe { same(s.p.as_ptr(), s.old.size(), &s.vals) });
        }
    }
    kani::cover!(r.is_ok());
    core::mem::forget(s.b);
}
// grow falls back to the slow path when the chunk is full: stub it out to "refuse" (the slow path is verified by Engine V)
fn slow_refuses<const MIN_ALIGN: usize>(_b: &Bump<MIN_ALIGN>, _l: Layout) -> Option<NonNull<u8>> { None }
#[kani::proof]
#[kani::stub(Bump::alloc_layout_slow, slow_refuses)]
fn k_grow() { grow_h::<1>(4, 4, 8, 4, true) }
#[kani::proof]
#[kani::stub(Bump::alloc_layout_slow, slow_refuses)]
fn k_grow_m8() { grow_h::<8>(3, 1, 8, 1, true) }
#[kani::proof]
#[kani::stub(Bump::alloc_layout_slow, slow_refuses)]
fn k_grow_align() { grow_h::<1>(5, 1, 8, 8, true) }
#[kani::proof]
#[kani::stub(Bump::alloc_layout_slow, slow_refuses)]
fn k_grow_notlast() { grow_h::<1>(4, 1, 8, 1, false) }

// ---------------------------------------------------------------- Allocator trait glue (allocator-api2)
#[cfg(feature = "allocator-api2")]
use allocator_api2::alloc::Allocator;
#[cfg(feature = "allocator-api2")]
#[kani::proof]
#[kani::stub(Bump::alloc_layout_slow, slow_refuses)]
fn k_glue_grow_zeroed() {
    let s = scene::<1>(3, 1, true);
    let new = Layout::from_size_align(8, 1).unwrap();
    let a: &Bump<1> = &s.b;
    let r = unsafe { Allocator::grow_zeroed(&a, s.p, s.old, new) };
    if let Ok(q) = r {
        assert!(q.len() == new.size(), "C12 returned slice has the requested length");
        let base = q.as_ptr() as *mut u8;
        assert!(unsafe { same(base, s.old.size(), &s.vals) });
        let mut i = 0;
        while i < N { if i >= s.old.size() && i < new.size() { assert!(unsafe { *base.add(i) } == 0, "C12 grow_zeroed zero-fills the tail"); } i += 1; }
        assert!(neighbour_intact(&s));
    }
    kani::cover!(r.is_ok());
    core::mem::forget(s.b);
}
#[cfg(feature = "allocator-api2")]
#[kani::proof]
#[kani::stub(Bump::alloc_layout_slow, slow_refuses)]
fn k_glue_alloc_shrink_dealloc() {
    let b = mk_bump::<1>(448);
    let a: &Bump<1> = &b;
    let l = Layout::from_size_align(8, 2).unwrap();
    let q = Allocator::allocate(&a, l).unwrap();
    assert!(q.len() == l.size() && (q.as_ptr() as *mut u8 as usize) % l.align() == 0);
    let new = Layout::from_size_align(2, 2).unwrap();
    let p = unsafe { NonNull::new_unchecked(q.as_ptr() as *mut u8) };
    let r2 = unsafe { Allocator::shrink(&a, p, l, new) };
    if let Ok(q2) = r2 {
        assert!(q2.len() == new.size());
        unsafe { Allocator::deallocate(&a, NonNull::new_unchecked(q2.as_ptr() as *mut u8), new) };
        assert!(finger(&b) == footer_addr(&b), "C12 deallocate of the last block gives the space back");
    }
    kani::cover!(r2.is_ok());
    core::mem::forget(b);
}

// ---------------------------------------------------------------- slice / value initialisation (C02)
#[kani::proof]
#[kani::stub(Bump::alloc_layout_slow, slow_refuses_panic)]
#[kani::unwind(5)]
fn k_fill_copy_clone() {
    let b = mk_bump::<1>(448);
    let src: [u16; 3] = kani::any();
    let c = b.alloc_slice_copy(&src);
    assert!(c.len() == 3 && c[0] == src[0] && c[1] == src[1] && c[2] == src[2], "C02 alloc_slice_copy reads back the source");
    let d = b.alloc_slice_clone(&src);
    assert!(d.len() == 3 && d[0] == src[0] && d[2] == src[2] && c[0] == src[0] && c[2] == src[2], "C02 earlier blocks intact");
    let e = b.alloc_slice_fill_copy(2, src[1]);
    assert!(e[0] == src[1] && e[1] == src[1] && d[1] == src[1] && c[1] == src[1]);
    kani::cover!(true);
    core::mem::forget(b);
}
#[kani::proof]
#[kani::stub(Bump::alloc_layout_slow, slow_refuses_panic)]
#[kani::unwind(6)]
fn k_fill_str() {
    let b = mk_bump::<1>(448);
    let x = b.alloc(0x1234u16);
    let s = b.alloc_str("h\u{e9}z");
    assert!(s.len() == 4 && s.as_bytes()[0] == b'h' && s.as_bytes()[1] == 0xC3 && s.as_bytes()[3] == b'z', "C02 alloc_str copies the bytes");
    assert!(*x == 0x1234);
    kani::cover!(true);
    core::mem::forget(b);
}
#[kani::proof]
#[kani::stub(Bump::alloc_layout_slow, slow_refuses_panic)]
#[kani::unwind(5)]
fn k_fill_with_order() {
    let b = mk_bump::<1>(448);
    let n: usize = kani::any();
    kani::assume(n <= 3);
    let mut calls = 0usize;
    let mut in_order = true;
    let vals: [u8; 3] = kani::any();
    let s = b.alloc_slice_fill_with(n, |i| { if i != calls { in_order = false; } calls += 1; vals[i] });
    assert!(s.len() == n && calls == n && in_order, "C02 closure called once per index, in order");
    let mut i = 0; while i < n { assert!(s[i] == vals[i]); i += 1; }
    let it = b.alloc_slice_fill_iter(vals[..n].iter().copied());
    let mut i = 0; while i < n { assert!(it[i] == vals[i] && s[i] == vals[i]); i += 1; }
    let x = b.alloc_with(|| vals[0]);
    assert!(*x == vals[0]);
    kani::cover!(n == 3);
    core::mem::forget(b);
}

// ---------------------------------------------------------------- failed initialisers (C11)
pub static mut DROPS: usize = 0;
pub struct CountedErr(pub u8);
impl Drop for CountedErr { fn drop(&mut self) { unsafe { DROPS += 1; } } }

fn slow_must_not_run<const MIN_ALIGN: usize>(_b: &Bump<MIN_ALIGN>, _l: Layout) -> Option<NonNull<u8>> {
    panic!("C11: the retry of the same layout went to the global allocator")
}

fn rewind_same_chunk<const M: usize>() {
    let b = mk_bump::<M>(448);
    let _ = any_finger(&b, 448);
    let f0 = finger(&b);
    let tag: u8 = kani::any();
    let mut ran = 0;
    let r: Result<&mut [u32; 3], CountedErr> = b.alloc_try_with(|| { ran += 1; Err(CountedErr(tag)) });
    // the reservation may have failed -> slow path stub panics; only states where it fits get here
    assert!(ran == 1);
    match r {
        Err(e) => { assert!(e.0 == tag, "C11 error value delivered"); assert!(unsafe { DROPS } == 0, "C11 error not dropped inside the arena"); drop(e); assert!(unsafe { DROPS } == 1, "C11 delivered exactly once"); }
        Ok(_) => assert!(false),
    }
    assert!(finger(&b) == f0, "C11 finger restored (padding included)");
    kani::cover!(true);
    core::mem::forget(b);
}
#[kani::proof]
#[kani::stub(Bump::alloc_layout_slow, slow_refuses_panic)]
fn k_rewind() { rewind_same_chunk::<1>() }
#[kani::proof]
#[kani::stub(Bump::alloc_layout_slow, slow_refuses_panic)]
fn k_rewind_m16() { rewind_same_chunk::<16>() }
fn slow_refuses_panic<const MIN_ALIGN: usize>(_b: &Bump<MIN_ALIGN>, _l: Layout) -> Option<NonNull<u8>> { kani::assume(false); None }

/// initialiser that allocates and keeps a block: no rewind, the kept block stays intact
#[kani::proof]
#[kani::stub(Bump::alloc_layout_slow, slow_refuses_panic)]
fn k_rewind_keeps_inner_allocs() {
    let b = mk_bump::<1>(448);
    let v: u32 = kani::any();
    let mut kept: *mut u32 = core::ptr::null_mut();
    let r: Result<&mut u64, u8> = b.try_alloc_try_with(|| { kept = b.alloc(v) as *mut u32; Err(3) }).map_err(|e| match e { AllocOrInitError::Init(e) => e, AllocOrInitError::Alloc(_) => 0 });
    assert!(r == Err(3));
    let f = finger(&b);
    assert!(f == kept as usize, "C11 blocks the initialiser kept are not reclaimed");
    assert!(unsafe { *kept } == v);
    kani::cover!(true);
    core::mem::forget(b);
}

/// try_fill slice: the reservation is released through dealloc; a same-layout request then needs no new memory
#[kani::proof]
#[kani::unwind(5)]
#[kani::stub(Bump::alloc_layout_slow, slow_refuses_panic)]
fn k_try_fill_releases() {
    let b = mk_bump::<1>(448);
    let f0 = finger(&b);
    let k: usize = kani::any();
    kani::assume(k < 3);
    let mut calls = 0;
    let r: Result<&mut [u16], u8> = b.alloc_slice_try_fill_with(3, |i| { calls += 1; if i == k { Err(9) } else { Ok(i as u16) } });
    assert!(r == Err(9) && calls == k + 1, "C11 stops at the first error");
    assert!(finger(&b) == f0, "C11 reservation released");
    kani::cover!(k == 2);
    core::mem::forget(b);
}

// ---------------------------------------------------------------- failed initialisers that force a NEW chunk (C11)
/// stand-in for the slow path (verified by Engine V; the real one costs CBMC > 50 GB): obtains one concrete 448-byte chunk
/// through the REAL new_chunk and serves the request through the REAL fast path
fn slow_one_chunk<const MIN_ALIGN: usize>(b: &Bump<MIN_ALIGN>, l: Layout) -> Option<NonNull<u8>> {
    let d = NewChunkMemoryDetails { new_size_without_footer: 448, align: 16, size: 448 + FOOTER };
    let f = unsafe { Bump::<MIN_ALIGN>::new_chunk(d, l, b.current_chunk_footer.get()) }?;
    b.current_chunk_footer.set(f);
    b.try_alloc_layout_fast(l)
}

#[kani::proof]
#[kani::unwind(6)]
#[kani::stub(Bump::alloc_layout_slow, slow_one_chunk)]
fn k_try_fill_new_chunk() {
    let b = mk_bump::<1>(64);
    set_finger(&b, 8);                                   // 8 bytes left: a 4 x u64 slice does not fit
    let old_chunk = b.current_chunk_footer.get();
    let (old_finger, old_data) = (finger(&b), data(&b));
    let r: Result<&mut [u64], u8> = b.alloc_slice_try_fill_with(4, |i| if i == 1 { Err(9) } else { Ok(i as u64) });
    assert!(r == Err(9));
    assert!(b.current_chunk_footer.get() != old_chunk, "a new chunk was needed");
    let (f, d, a) = (finger(&b), data(&b), footer_addr(&b));
    assert!(d <= f && f <= a, "C11/C01 the finger stays inside the chunk it belongs to");
    assert!(b.chunk_capacity() == 448, "C11 the reservation of the failed fill is reusable");
    assert!(unsafe { old_chunk.as_ref() }.ptr.get().as_ptr() as usize == old_finger && old_data == unsafe { old_chunk.as_ref() }.data.as_ptr() as usize, "C11 the previous chunk is untouched");
    kani::cover!(true);
    core::mem::forget(b);
}

#[kani::proof]
#[kani::unwind(6)]
#[kani::stub(Bump::alloc_layout_slow, slow_one_chunk)]
fn k_rewind_new_chunk() {
    let b = mk_bump::<1>(64);
    set_finger(&b, 8);
    let old_chunk = b.current_chunk_footer.get();
    let old_finger = finger(&b);
    let r: Result<&mut [u64; 4], u8> = b.alloc_try_with(|| Err(7));
    assert!(r == Err(7));
    assert!(b.current_chunk_footer.get() != old_chunk);
    assert!(b.chunk_capacity() == 448, "C11 the chunk obtained for the failed value is completely free again");
    assert!(unsafe { old_chunk.as_ref() }.ptr.get().as_ptr() as usize == old_finger, "C11/C20 the previous chunk is untouched");
    let r2: Result<&mut [u64; 4], AllocOrInitError<u8>> = b.try_alloc_try_with(|| Err(7));
    assert!(r2.is_err() && b.chunk_capacity() == 448);
    kani::cover!(true);
    core::mem::forget(b);
}
