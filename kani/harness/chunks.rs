//! Chunk-list harnesses with the global allocator replaced by the ledger stub (bounded in the number of chunks):
//! new_chunk, reset, Drop, chunk iteration, accounting, and the slow path with nondeterministic refusals and limits.
use super::util::*;
use crate::*;
use core::alloc::Layout;
use core::ptr::NonNull;

unsafe fn reset_ledger() { LEDGER_LEN = 0; ALLOC_CALLS = 0; REFUSE_ALL = false; REFUSE_NONDET = false; REFUSE_ABOVE = usize::MAX; }

/// accounting invariant (C08) against the ledger
fn check_accounting<const M: usize>(b: &Bump<M>) {
    unsafe {
        assert!(b.allocated_bytes_including_metadata() == ledger_live_bytes(), "C08 including_metadata == bytes held");
        assert!(b.allocated_bytes() + ledger_live_count() * FOOTER == ledger_live_bytes(), "C08 allocated_bytes == held - n*footer");
    }
}

#[kani::proof]
#[kani::stub(core_alloc::alloc::alloc, stub_alloc)]
#[kani::stub(core_alloc::alloc::dealloc, stub_dealloc)]
#[kani::unwind(8)]
fn k_new_chunk() { new_chunk_h(448, 16) }
#[kani::proof]
#[kani::stub(core_alloc::alloc::alloc, stub_alloc)]
#[kani::stub(core_alloc::alloc::dealloc, stub_dealloc)]
#[kani::unwind(8)]
fn k_new_chunk_64() { new_chunk_h(64, 64) }
fn new_chunk_h(usable: usize, al: usize) {
    unsafe { reset_ledger(); REFUSE_NONDET = true; }
    let b = Bump::<1>::with_min_align();
    check_accounting(&b);
    let d = NewChunkMemoryDetails { new_size_without_footer: usable, align: al, size: usable + FOOTER };
    let r = unsafe { Bump::<1>::new_chunk(d, Layout::from_size_align(8, 8).unwrap(), EMPTY_CHUNK.get()) };
    match r {
        Some(f) => unsafe {
            let fr = f.as_ref();
            assert!(LEDGER_LEN == 1 && LEDGER[0].live);
            assert!(LEDGER[0].ptr == fr.data.as_ptr() as usize, "C03 footer records the block obtained");
            assert!(LEDGER[0].size == fr.layout.size() && LEDGER[0].align == fr.layout.align(), "C03 footer records the layout requested");
            assert!(fr.layout.size() == usable + FOOTER && fr.layout.align() == al);
            assert!(f.as_ptr() as usize == fr.data.as_ptr() as usize + usable);
            assert!(fr.ptr.get().as_ptr() as usize == f.as_ptr() as usize);
            assert!(fr.allocated_bytes == usable, "C08");
            assert!(fr.prev.get() == EMPTY_CHUNK.get());
            b.current_chunk_footer.set(f);
            check_accounting(&b);
        },
        None => unsafe { assert!(ledger_live_count() == 0, "C09 nothing obtained is kept") },
    }
    kani::cover!(r.is_some());
    drop(b);
    unsafe { assert!(ledger_live_count() == 0, "C03 after drop the arena holds no memory"); }
}

/// n chunks (0..=3), partially used; reset at this point, then drop
fn list_h<const M: usize>(n: usize) {
    unsafe { reset_ledger(); }
    let mut b = Bump::<M>::with_min_align();
    let lim: Option<usize> = if kani::any() { Some(kani::any()) } else { None };
    b.set_allocation_limit(lim);
    let sizes = [64usize, 448, 64];
    let mut i = 0;
    while i < 3 {
        if i < n {
            push_chunk(&b, sizes[i]);
            let _ = any_finger(&b, sizes[i]);
        }
        i += 1;
    }
    check_accounting(&b);
    unsafe { assert!(ledger_live_count() == n); }
    // C10: raw iteration = one slice per chunk, newest first, each inside its chunk; both iterators agree
    let mut cnt = 0;
    let mut it = unsafe { b.iter_allocated_chunks_raw() };
    let mut f = b.current_chunk_footer.get();
    let mut k = 0;
    while k < 4 {
        if let Some((p, len)) = it.next() {
            let fr = unsafe { f.as_ref() };
            assert!(p as usize == fr.ptr.get().as_ptr() as usize && p as usize + len == f.as_ptr() as usize, "C10 slice is [finger, footer)");
            assert!(fr.data.as_ptr() as usize <= p as usize);
            f = fr.prev.get();
            cnt += 1;
        }
        k += 1;
    }
    assert!(cnt == n, "C10 one slice per chunk");
    let cur = b.current_chunk_footer.get();
    let cur_size = unsafe { cur.as_ref().layout.size() };
    if kani::any() {
        b.reset();
        unsafe {
            assert!(ledger_live_count() == if n == 0 { 0 } else { 1 }, "C06 at most one block after reset");
            assert!(b.current_chunk_footer.get() == cur, "C06 keeps the newest chunk");
            if n > 0 {
                assert!(b.chunk_capacity() == cur_size - FOOTER, "C06 full capacity again");
                assert!(b.iter_allocated_chunks().next().map(|s| s.len()) == Some(0), "C06 nothing allocated");
                assert!(b.iter_allocated_chunks().count() == 1);
            } else {
                assert!(b.iter_allocated_chunks().count() == 0, "C06 reset of a chunk-less arena is a no-op");
            }
        }
        assert!(b.allocation_limit() == lim, "C06 keeps the limit");
        check_accounting(&b);
        if kani::any() { b.reset(); check_accounting(&b); }
    }
    kani::cover!(true);
    drop(b);
    unsafe {
        assert!(ledger_live_count() == 0, "C03 after drop the arena holds no memory");
        let mut i = 0;
        while i < LEDGER_N { if i < LEDGER_LEN { assert!(LEDGER[i].freed == 1, "C03 exactly once"); } i += 1; }
    }
}
#[kani::proof]
#[kani::stub(core_alloc::alloc::alloc, stub_alloc)]
#[kani::stub(core_alloc::alloc::dealloc, stub_dealloc)]
#[kani::unwind(8)]
fn k_list_0() { list_h::<1>(0) }
#[kani::proof]
#[kani::stub(core_alloc::alloc::alloc, stub_alloc)]
#[kani::stub(core_alloc::alloc::dealloc, stub_dealloc)]
#[kani::unwind(8)]
fn k_list_1() { list_h::<1>(1) }
#[kani::proof]
#[kani::stub(core_alloc::alloc::alloc, stub_alloc)]
#[kani::stub(core_alloc::alloc::dealloc, stub_dealloc)]
#[kani::unwind(8)]
fn k_list_2() { list_h::<8>(2) }
#[kani::proof]
#[kani::stub(core_alloc::alloc::alloc, stub_alloc)]
#[kani::stub(core_alloc::alloc::dealloc, stub_dealloc)]
#[kani::unwind(8)]
fn k_list_3() { list_h::<1>(3) }

/// constructor with capacity: honoured, accounted, nothing kept on failure
#[kani::proof]
#[kani::stub(core_alloc::alloc::alloc, stub_alloc)]
#[kani::stub(core_alloc::alloc::dealloc, stub_dealloc)]
#[kani::unwind(8)]
fn k_with_capacity() {
    unsafe { reset_ledger(); REFUSE_NONDET = true; }
    let caps = [0usize, 1, 100, 5000, isize::MAX as usize, usize::MAX - 3, usize::MAX];
    let ci: usize = kani::any();
    kani::assume(ci < 7);
    let cap = caps[ci];
    let r = Bump::<8>::try_with_min_align_and_capacity(cap);
    let was_ok = r.is_ok();
    match r {
        Ok(b) => {
            assert!(b.chunk_capacity() >= cap, "C18 capacity honoured");
            unsafe { assert!(ledger_live_count() == if cap == 0 { 0 } else { 1 }); }
            check_accounting(&b);
            assert!(b.allocation_limit().is_none());
            drop(b);
        }
        Err(_) => {}
    }
    unsafe { assert!(ledger_live_count() == 0, "C03/C09 nothing kept after Err or drop"); }
    kani::cover!(was_ok && cap == 5000);
}

/// the slow path: one request that does not fit in the current chunk; CONCRETE request sizes (a symbolic chunk size costs
/// CBMC tens of GB), symbolic limit, the allocator may refuse any request
fn slow_h<const M: usize>(start_with_chunk: bool, size: usize, align: usize) {
    unsafe { reset_ledger(); }
    let b = Bump::<M>::with_min_align();
    if start_with_chunk {
        push_chunk(&b, 64);
        set_finger(&b, if kani::any() { 0 } else { 16 });
    }
    unsafe { REFUSE_NONDET = true; }
    let lims = [None, Some(0usize), Some(100), Some(447), Some(448), Some(512), Some(5000), Some(usize::MAX)];
    let li: usize = kani::any();
    kani::assume(li < 8);
    let lim = lims[li];
    b.set_allocation_limit(lim);
    let l = Layout::from_size_align(size, align).unwrap();
    let held0 = b.allocated_bytes();
    let (c0, f0) = (b.current_chunk_footer.get(), finger(&b));
    let live0 = unsafe { ledger_live_count() };
    let r = b.try_alloc_layout(l);
    let held1 = b.allocated_bytes();
    match r {
        Ok(p) => {
            let p = p.as_ptr() as usize;
            assert!(p % l.align() == 0 && p % M == 0);
            if held1 != held0 {
                if let Some(lm) = lim { assert!(held1 <= lm, "C07 limit never exceeded by acquiring memory"); }
                assert!(b.current_chunk_footer.get() != c0);
                assert!(data(&b) <= p && p + l.size() <= footer_addr(&b), "C01 inside the new chunk");
                unsafe { assert!(ledger_live_count() == live0 + 1); }
            } else {
                assert!(b.current_chunk_footer.get() == c0, "C07 fits in the current chunk whatever the limit");
            }
        }
        Err(_) => {
            assert!(b.current_chunk_footer.get() == c0 && finger(&b) == f0 && held1 == held0, "C09 failure changes nothing");
            unsafe { assert!(ledger_live_count() == live0, "C09 holds exactly the memory it held before"); }
        }
    }
    check_accounting(&b);
    kani::cover!(r.is_ok() && held1 != held0);
    kani::cover!(r.is_err());
    core::mem::forget(b);
}
#[kani::proof]
#[kani::stub(core_alloc::alloc::alloc, stub_alloc)]
#[kani::stub(core_alloc::alloc::dealloc, stub_dealloc)]
#[kani::unwind(14)]
fn k_slow_fresh() { slow_h::<1>(false, 100, 8) }
#[kani::proof]
#[kani::stub(core_alloc::alloc::alloc, stub_alloc)]
#[kani::stub(core_alloc::alloc::dealloc, stub_dealloc)]
#[kani::unwind(14)]
fn k_slow_chunk() { slow_h::<1>(true, 100, 8) }
#[kani::proof]
#[kani::stub(core_alloc::alloc::alloc, stub_alloc)]
#[kani::stub(core_alloc::alloc::dealloc, stub_dealloc)]
#[kani::unwind(14)]
fn k_slow_chunk_m16() { slow_h::<16>(true, 5000, 32) }

/// growth is geometric: the first size offered to the global allocator is at least twice the current chunk
#[kani::proof]
#[kani::stub(core_alloc::alloc::alloc, stub_alloc)]
#[kani::stub(core_alloc::alloc::dealloc, stub_dealloc)]
#[kani::unwind(14)]
fn k_slow_doubles() {
    unsafe { reset_ledger(); }
    let b = Bump::<1>::with_min_align();
    push_chunk(&b, 448);
    set_finger(&b, 0); // full
    let l = any_layout(64, 3);
    kani::assume(l.size() > 0);
    let r = b.try_alloc_layout(l);
    assert!(r.is_ok());
    unsafe {
        assert!(LEDGER_LEN == 2);
        assert!(LEDGER[1].size - FOOTER >= 2 * 448, "C18 new chunk at least twice the previous one");
    }
    kani::cover!(true);
    core::mem::forget(b);
}
