//! Chunk-list harnesses with the global allocator replaced by the ledger stub (bounded in the number of chunks):
//! new_chunk, reset, Drop, chunk iteration, accounting.
use super::util::*;
use crate::*;
use core::alloc::Layout;
use core::ptr::NonNull;

unsafe fn reset_ledger() { LEDGER_LEN = 0; ALLOC_CALLS = 0; REFUSE_ALL = false; REFUSE_NONDET = false; REFUSE_ABOVE = usize::MAX; }

/// accounting invariant (C08) against the ledger
fn check_accounting<const M: usize>(b: &Bump<M>) {
    unsafe {
        assert!(b.allocated_bytes_including_metadata() == ledger_live_bytes(), "C08 including_metadata == bytes held");
        assert!(b.allocated_bytes() + ledger_live_count() * FOOTER == ledger_live_bytes(), "C08 allocated_bytes == held - n*footer");
    }
}

#[kani::proof]
#[kani::stub(core_alloc::alloc::alloc, stub_alloc)]
#[kani::stub(core_alloc::alloc::dealloc, stub_dealloc)]
#[kani::unwind(8)]
fn k_new_chunk() { new_chunk_h(448, 16) }
#[kani::proof]
#[kani::stub(core_alloc::alloc::alloc, stub_alloc)]
#[kani::stub(core_alloc::alloc::dealloc, stub_dealloc)]
#[kani::unwind(8)]
fn k_new_chunk_64() { new_chunk_h(64, 64) }
fn new_chunk_h(usable: usize, al: usize) {
    unsafe { reset_ledger(); REFUSE_NONDET = true; }
    let b = Bump::<1>::with_min_align();
    check_accounting(&b);
    let d = NewChunkMemoryDetails { new_size_without_footer: usable, align: al, size: usable + FOOTER };
    let r = unsafe { Bump::<1>::new_chunk(d, Layout::from_size_align(8, 8).unwrap(), EMPTY_CHUNK.get()) };
    match r {
        Some(f) => unsafe {
            let fr = f.as_ref();
            assert!(LEDGER_LEN == 1 && LEDGER[0].live);
            assert!(LEDGER[0].ptr == fr.data.as_ptr() as usize, "C03 footer records the block obtained");
            assert!(LEDGER[0].size == fr.layout.size() && LEDGER[0].align == fr.layout.align(), "C03 footer records the layout requested");
            assert!(fr.layout.size() == usable + FOOTER && fr.layout.align() == al);
            assert!(f.as_ptr() as usize == fr.data.as_ptr() as usize + usable);
            assert!(fr.ptr.get().as_ptr() as usize == f.as_ptr() as usize);
            assert!(fr.allocated_bytes == usable, "C08");
            assert!(fr.prev.get() == EMPTY_CHUNK.get());
            b.current_chunk_footer.set(f);
            check_accounting(&b);
        },
        None => unsafe { assert!(ledger_live_count() == 0, "C09 nothing obtained is kept") },
    }
    kani::cover!(r.is_some());
    drop(b);
    unsafe { assert!(ledger_live_count() == 0, "C03 after drop the arena holds no memory"); }
}

/// n chunks (0..=3), partially used; reset at this point, then drop
fn list_h<const M: usize>(n: usize) {
    unsafe { reset_ledger(); }
    let mut b = Bump::<M>::with_min_align();
    let lim: Option<usize> = if kani::any() { Some(kani::any()) } else { None };
    b.set_allocation_limit(lim);
    let sizes = [64usize, 448, 64];
    let mut i = 0;
    while i < 3 {
        if i < n {
            push_chunk(&b, sizes[i]);
            let _ = any_finger(&b, sizes[i]);
        }
        i += 1;
    }
    check_accounting(&b);
    unsafe { assert!(ledger_live_count() == n); }
    // C10: raw iteration = one slice per chunk, newest first, each inside its chunk; both iterators agree
    let mut cnt = 0;
    let mut it = unsafe { b.iter_allocated_chunks_raw() };
    let mut f = b.current_chunk_footer.get();
    let mut k = 0;
    while k < 4 {
        if let Some((p, len)) = it.next() {
            let fr = unsafe { f.as_ref() };
            assert!(p as usize == fr.ptr.get().as_ptr() as usize && p as usize + len == f.as_ptr() as usize, "C10 slice is [finger, footer)");
            assert!(fr.data.as_ptr() as usize <= p as usize);
            f = fr.prev.get();
            cnt += 1;
        }
        k += 1;
    }
    assert!(cnt == n, "C10 one slice per chunk");
    let cur = b.current_chunk_footer.get();
    let cur_size = unsafe { cur.as_ref().layout.size() };
    if kani::any() {
        b.reset();
        unsafe {
            assert!(ledger_live_count() == if n == 0 { 0 } else { 1 }, "C06 at most one block after reset");
            assert!(b.current_chunk_footer.get() == cur, "C06 keeps the newest chunk");
            if n > 0 {
                assert!(b.chunk_capacity() == cur_size - FOOTER, "C06 full capacity again");
                assert!(b.iter_allocated_chunks().next().map(|s| s.len()) == Some(0), "C06 nothing allocated");
                assert!(b.iter_allocated_chunks().count() == 1);
            } else {
                assert!(b.iter_allocated_chunks().count() == 0, "C06 reset of a chunk-less arena is a no-op");
            }
        }
        assert!(b.allocation_limit() == lim, "C06 keeps the limit");
        check_accounting(&b);
        if kani::any() { b.reset(); check_accounting(&b); }
    }
    kani::cover!(true);
    drop(b);
    unsafe {
        assert!(ledger_live_count() == 0, "C03 after drop the arena holds no memory");
        let mut i = 0;
        while i < LEDGER_N { if i < LEDGER_LEN { assert!(LEDGER[i].freed == 1, "C03 exactly once"); } i += 1; }
    }
}
#[kani::proof]
#[kani::stub(core_alloc::alloc::alloc, stub_alloc)]
#[kani::stub(core_alloc::alloc::dealloc, stub_dealloc)]
#[kani::unwind(8)]
fn k_list_0() { list_h::<1>(0) }
#[kani::proof]
#[kani::stub(core_alloc::alloc::alloc, stub_alloc)]
#[kani::stub(core_alloc::alloc::dealloc, stub_dealloc)]
#[kani::unwind(8)]
fn k_list_1() { list_h::<1>(1) }
#[kani::proof]
#[kani::stub(core_alloc::alloc::alloc, stub_alloc)]
#[kani::stub(core_alloc::alloc::dealloc, stub_dealloc)]
#[kani::unwind(8)]
fn k_list_2() { list_h::<8>(2) }
#[kani::proof]
#[kani::stub(core_alloc::alloc::alloc, stub_alloc)]
#[kani::stub(core_alloc::alloc::dealloc, stub_dealloc)]
#[kani::unwind(8)]
fn k_list_3() { list_h::<1>(3) }

// NOTE: harnesses that drove the REAL slow path (`alloc_layout_slow`) and the capacity constructor through CBMC were
// measured at > 50 GB / no verdict and have been removed; both functions are verified unbounded by Engine V
// (slow.* and try_with_capacity.* obligations).  arena_mem.rs uses a concrete one-chunk stand-in where a harness needs a
// "new chunk" event.
