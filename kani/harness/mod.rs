//! Engine K harness module.  It is compiled INTO A SCRATCH COPY of the crate (appended to the copy of
//! src/lib.rs as `#[cfg(kani)] #[path = "/verif/kani/harness/mod.rs"] mod verif_kani;`), so it can reach private
//! functions.  /repo itself is never touched.  Every harness is `assume(requires); call; assert(ensures)` on the
//! REAL function and ends in `kani::cover!(..)` (vacuity guard: must be SATISFIED).
#![allow(dead_code, unused_imports, unused_variables, unused_unsafe, unused_mut)]
extern crate std;

pub mod util;
pub mod arena;
pub mod arena_mem;
pub mod chunks;
#[cfg(feature = "collections")]
pub mod vecs;
#[cfg(feature = "collections")]
pub mod strings;
#[cfg(all(feature = "collections", feature = "boxed"))]
pub mod boxes;
