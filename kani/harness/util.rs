//! shared helpers: concrete chunk geometry (symbolic chunk sizes cost CBMC millions of variables), a ledger stub for
//! the global allocator, symbolic layouts.
use crate::*;
use core::alloc::Layout;
use core::cell::Cell;
use core::ptr::NonNull;

pub const FOOTER: usize = core::mem::size_of::<ChunkFooter>();

/// symbolic valid layout with align = 2^k, k <= max_shift, size <= max_size
pub fn any_layout(max_size: usize, max_shift: u8) -> Layout {
    let size: usize = kani::any();
    let sh: u8 = kani::any();
    kani::assume(sh <= max_shift);
    kani::assume(size <= max_size);
    let align = 1usize << sh;
    kani::assume(size <= (isize::MAX as usize) - (align - 1));
    Layout::from_size_align(size, align).unwrap()
}

/// an arena holding exactly one chunk of `usable` bytes (usable must be 64k-48.. style: multiple of 16), built by the REAL new_chunk
pub fn mk_bump<const M: usize>(usable: usize) -> Bump<M> {
    let b = Bump::<M>::with_min_align();
    let d = NewChunkMemoryDetails { new_size_without_footer: usable, align: 16, size: usable + FOOTER };
    let f = unsafe { Bump::<M>::new_chunk(d, Layout::from_size_align(1, 1).unwrap(), EMPTY_CHUNK.get()) };
    let f = f.unwrap();
    b.current_chunk_footer.set(f);
    b
}

/// push a second (newer) chunk of `usable` bytes in front of the current one
pub fn push_chunk<const M: usize>(b: &Bump<M>, usable: usize) {
    let d = NewChunkMemoryDetails { new_size_without_footer: usable, align: 16, size: usable + FOOTER };
    let f = unsafe { Bump::<M>::new_chunk(d, Layout::from_size_align(1, 1).unwrap(), b.current_chunk_footer.get()) };
    b.current_chunk_footer.set(f.unwrap());
}

pub fn footer_of<const M: usize>(b: &Bump<M>) -> &ChunkFooter {
    unsafe { &*b.current_chunk_footer.get().as_ptr() }
}
pub fn footer_addr<const M: usize>(b: &Bump<M>) -> usize { b.current_chunk_footer.get().as_ptr() as usize }
pub fn finger<const M: usize>(b: &Bump<M>) -> usize { footer_of(b).ptr.get().as_ptr() as usize }
pub fn data<const M: usize>(b: &Bump<M>) -> usize { footer_of(b).data.as_ptr() as usize }

/// move the finger to data + off (off symbolic multiple of M chosen by the caller)
pub fn set_finger<const M: usize>(b: &Bump<M>, off: usize) {
    let f = footer_of(b);
    unsafe { f.ptr.set(NonNull::new_unchecked(f.data.as_ptr().add(off))) };
}

/// symbolic finger position: any multiple of M within the chunk
pub fn any_finger<const M: usize>(b: &Bump<M>, usable: usize) -> usize {
    let k: usize = kani::any();
    kani::assume(k <= usable / M);
    let off = k * M;
    set_finger(b, off);
    off
}

// ------------------------------------------------------------------------------------------------------------
// ledger stub for the global allocator: records every alloc/dealloc; can refuse nondeterministically
// ------------------------------------------------------------------------------------------------------------
pub const LEDGER_N: usize = 6;
#[derive(Clone, Copy)]
pub struct Entry { pub ptr: usize, pub size: usize, pub align: usize, pub live: bool, pub freed: u8 }
pub static mut LEDGER: [Entry; LEDGER_N] = [Entry { ptr: 0, size: 0, align: 0, live: false, freed: 0 }; LEDGER_N];
pub static mut LEDGER_LEN: usize = 0;
pub static mut ALLOC_CALLS: usize = 0;
pub static mut REFUSE_ALL: bool = false;
pub static mut REFUSE_NONDET: bool = false;
pub static mut REFUSE_ABOVE: usize = usize::MAX;

extern "C" {
    fn malloc(n: usize) -> *mut u8;
    fn free(p: *mut u8);
}

pub unsafe fn stub_alloc(layout: Layout) -> *mut u8 {
    ALLOC_CALLS += 1;
    assert!(layout.size() > 0);
    if REFUSE_ALL || layout.size() > REFUSE_ABOVE { return core::ptr::null_mut(); }
    if REFUSE_NONDET && kani::any::<bool>() { return core::ptr::null_mut(); }
    if LEDGER_LEN >= LEDGER_N { return core::ptr::null_mut(); }
    let p = malloc(layout.size());
    if p.is_null() { return p; }
    LEDGER[LEDGER_LEN] = Entry { ptr: p as usize, size: layout.size(), align: layout.align(), live: true, freed: 0 };
    LEDGER_LEN += 1;
    p
}

pub unsafe fn stub_dealloc(p: *mut u8, layout: Layout) {
    let mut found = false;
    let mut i = 0;
    while i < LEDGER_N {
        if i < LEDGER_LEN && LEDGER[i].ptr == p as usize {
            // exactly once, same layout, something we handed out
            assert!(LEDGER[i].live, "C03: block returned twice");
            assert!(LEDGER[i].size == layout.size() && LEDGER[i].align == layout.align(), "C03: block returned with a different layout");
            LEDGER[i].live = false;
            LEDGER[i].freed += 1;
            found = true;
        }
        i += 1;
    }
    assert!(found, "C03: dealloc of a block the arena never obtained");
    free(p);
}

pub unsafe fn ledger_live_bytes() -> usize {
    let mut s = 0; let mut i = 0;
    while i < LEDGER_N { if i < LEDGER_LEN && LEDGER[i].live { s += LEDGER[i].size; } i += 1; }
    s
}
pub unsafe fn ledger_live_count() -> usize {
    let mut s = 0; let mut i = 0;
    while i < LEDGER_N { if i < LEDGER_LEN && LEDGER[i].live { s += 1; } i += 1; }
    s
}
