//! Address-level harnesses on the real arena functions.  The loop-free ones over full-domain inputs are COMPLETE
//! (not bounded); they are the counterexample generators paired with the Verus obligations.
use super::util::*;
use crate::*;
use core::alloc::Layout;
use core::ptr::NonNull;

fn any_pow2() -> usize {
    let k: u8 = kani::any();
    kani::assume(k < 64);
    1usize << k
}

// ---------------------------------------------------------------- rounding helpers (complete)
#[kani::proof]
fn k_round_up_to() {
    let n: usize = kani::any();
    let d = any_pow2();
    let r = round_up_to(n, d);
    match r {
        Some(x) => {
            assert!(x >= n && x - n < d && x % d == 0);
            let u = unsafe { round_up_to_unchecked(n, d) };
            assert!(u == x);
        }
        None => assert!(n.checked_add(d - 1).is_none()),
    }
    kani::cover!(r.is_some() && n % d != 0);
}

#[kani::proof]
fn k_round_down_to() {
    let n: usize = kani::any();
    let d = any_pow2();
    let r = round_down_to(n, d);
    assert!(r <= n && n - r < d && r % d == 0);
    assert!((n % d == 0) == (r == n));
    kani::cover!(r != n);
}

#[kani::proof]
fn k_round_ptr() {
    // pointers are only used as addresses by these helpers; use a real object so that CBMC's pointer checks stay on
    let buf = [0u8; 64];
    let off: usize = kani::any();
    kani::assume(off < 64);
    let p = unsafe { (buf.as_ptr() as *mut u8).add(off) };
    let k: u8 = kani::any();
    kani::assume(k <= 5);
    let d = 1usize << k;
    let r = round_mut_ptr_down_to(p, d) as usize;
    assert!(r <= p as usize && (p as usize) - r < d && r % d == 0);
    assert!(is_pointer_aligned_to(p, d) == ((p as usize) % d == 0));
    if (p as usize) % d == 0 || off + d <= 64 {
        let u = unsafe { round_mut_ptr_up_to_unchecked(p, d) } as usize;
        assert!(u >= p as usize && u - (p as usize) < d && u % d == 0);
    }
    kani::cover!(r != p as usize);
}

// ---------------------------------------------------------------- chunk sizing (complete per MIN_ALIGN instance)
fn ncmd<const M: usize>() {
    let l = any_layout(isize::MAX as usize, 40);
    let s: Option<usize> = if kani::any() { None } else { let v: usize = kani::any(); kani::assume(v <= usize::MAX - 64); Some(v) };
    let r = Bump::<M>::new_chunk_memory_details(s, l);
    if let Some(d) = r {
        assert!(d.align.is_power_of_two() && d.align >= 16 && d.align >= M && d.align >= l.align());
        assert!(d.align == 16usize.max(M).max(l.align()));
        assert!(d.size == d.new_size_without_footer + FOOTER);
        assert!(d.new_size_without_footer % 16 == 0);
        assert!(d.new_size_without_footer >= l.size());
        assert!(d.new_size_without_footer >= round_up_to(l.size(), d.align).unwrap());
        match s { Some(v) => assert!(d.new_size_without_footer >= v), None => assert!(d.new_size_without_footer >= DEFAULT_CHUNK_SIZE_WITHOUT_FOOTER) }
    }
    kani::cover!(r.is_some());
    kani::cover!(r.is_none());
}
#[kani::proof]
fn k_ncmd() { ncmd::<1>() }
#[kani::proof]
fn k_ncmd_m16() { ncmd::<16>() }

// ---------------------------------------------------------------- limit headroom (complete)
#[kani::proof]
fn k_limit_remaining() {
    let b = mk_bump::<1>(64);
    let held: usize = kani::any();
    unsafe { (*(b.current_chunk_footer.get().as_ptr())).allocated_bytes = held; }
    let lim: Option<usize> = if kani::any() { None } else { Some(kani::any()) };
    b.set_allocation_limit(lim);
    let r = b.allocation_limit_remaining();
    match lim {
        None => assert!(r.is_none()),
        Some(l) => {
            // C07: while a limit is set the headroom is never "unlimited"
            assert!(r.is_some());
            let h = r.unwrap();
            if held <= l { assert!(h == l - held) } else { assert!(h == 0) }
        }
    }
    let d = NewChunkMemoryDetails { new_size_without_footer: kani::any(), align: 16, size: 0 };
    let fits = Bump::<1>::chunk_fits_under_limit(r, d);
    assert!(fits == (r.is_none() || d.new_size_without_footer <= r.unwrap()));
    if let Some(l) = lim { if fits { assert!(held > l || held + d.new_size_without_footer <= l); } }
    kani::cover!(lim.is_some() && held > lim.unwrap());
    unsafe { (*(b.current_chunk_footer.get().as_ptr())).allocated_bytes = 64; }
    core::mem::forget(b);
}

// ---------------------------------------------------------------- fast path
fn fast<const M: usize>(usable: usize) {
    let b = mk_bump::<M>(usable);
    let _ = any_finger(&b, usable);
    let l = any_layout(isize::MAX as usize, 12);
    let (d0, p0, a) = (data(&b), finger(&b), footer_addr(&b));
    let r = b.try_alloc_layout_fast(l);
    match r {
        Some(p) => {
            let p = p.as_ptr() as usize;
            assert!(p != 0);
            assert!(p % l.align() == 0, "C04 layout alignment");
            assert!(p % M == 0, "C04 minimum alignment");
            assert!(d0 <= p, "C01 inside the chunk");
            let reserved = round_up_to(l.size(), M).unwrap();
            assert!(p + reserved <= p0, "C01 below the old finger");
            assert!(finger(&b) == p);
            if l.align() >= M && l.size() % l.align() == 0 && p0 % l.align() == 0 { assert!(p + l.size() == p0, "C10 no padding"); }
            // memory level: the block is writable and the footer is untouched
            if l.size() > 0 { unsafe { *(p as *mut u8) = 0xAA; *((p + l.size() - 1) as *mut u8) = 0x55; } }
        }
        None => {
            assert!(finger(&b) == p0, "C09 failure changes nothing");
            // completeness (C06/C07/C18): None only if the request really does not fit
            let cap = p0 - d0;
            if l.align() <= M {
                assert!(round_up_to(l.size(), M).map_or(true, |s| s > cap));
            } else {
                let ap = round_down_to(p0, l.align());
                assert!(ap < d0 || round_up_to(l.size(), l.align()).unwrap() > ap - d0);
            }
        }
    }
    assert!(data(&b) == d0 && footer_addr(&b) == a && footer_of(&b).layout.size() == usable + FOOTER);
    kani::cover!(r.is_some() && l.size() > 0);
    kani::cover!(r.is_none());
    core::mem::forget(b);
}
#[kani::proof]
fn k_fast_448() { fast::<1>(448) }
#[kani::proof]
fn k_fast_448_m8() { fast::<8>(448) }
#[kani::proof]
fn k_fast_448_m16() { fast::<16>(448) }
#[kani::proof]
fn k_fast_64_m2() { fast::<2>(64) }
#[kani::proof]
fn k_fast_64_m4() { fast::<4>(64) }

/// chunk-less arena: zero-sized requests succeed (aligned), anything else goes to the slow path; the static is never written
#[kani::proof]
fn k_fast_empty() {
    let b = Bump::<1>::with_min_align();
    let l = any_layout(64, 6);
    let e = footer_addr(&b);
    let r = b.try_alloc_layout_fast(l);
    if let Some(p) = r { assert!(l.size() == 0 && (p.as_ptr() as usize) % l.align() == 0); }
    assert!(footer_addr(&b) == e && finger(&b) == e);
    kani::cover!(r.is_some());
}

// ---------------------------------------------------------------- dealloc / is_last_allocation (address level)
fn dealloc_h<const M: usize>() {
    let usable = 448;
    let b = mk_bump::<M>(usable);
    let _ = any_finger(&b, usable);
    let l1 = any_layout(64, 5);
    let l2 = any_layout(64, 5);
    let r1 = b.try_alloc_layout_fast(l1);
    let r2 = b.try_alloc_layout_fast(l2);
    kani::assume(r1.is_some() && r2.is_some());
    let (p1, p2) = (r1.unwrap(), r2.unwrap());
    let f_before = finger(&b);
    // freeing the older block first must not move the finger into the newer one
    if kani::any() {
        unsafe { b.dealloc(p1, l1) };
        if p1 != p2 { assert!(finger(&b) == f_before, "C12 only the last block is reclaimed"); }
    }
    let f_mid = finger(&b);
    unsafe { b.dealloc(p2, l2) };
    let f = finger(&b);
    assert!(f % M == 0, "C04 finger stays aligned");
    assert!(f >= f_mid);
    if f_mid == p2.as_ptr() as usize && l1.size() > 0 && f_mid == f_before {
        assert!(f <= p1.as_ptr() as usize, "C01 never frees into the next live block");
    }
    assert!(f <= footer_addr(&b));
    kani::cover!(f > f_mid);
    core::mem::forget(b);
}
#[kani::proof]
fn k_dealloc() { dealloc_h::<1>() }
#[kani::proof]
fn k_dealloc_m8() { dealloc_h::<8>() }
