//! K-box: `boxed::Box` (C17) -- value round trips, ownership transfer, conversions, downcast; bounded in the type instances.
use super::util::*;
use super::vecs::{D, DROPS};
use crate::boxed::Box;
use crate::collections::Vec;
use crate::*;
use core::alloc::Layout;
use core::any::Any;
use core::convert::TryFrom;
use core::ptr::NonNull;

fn no_slow<const MIN_ALIGN: usize>(_b: &Bump<MIN_ALIGN>, _l: Layout) -> Option<NonNull<u8>> { kani::assume(false); None }
unsafe fn reset_drops() { let mut i = 0; while i < 8 { DROPS[i] = 0; i += 1; } }

#[kani::proof]
#[kani::unwind(12)]
#[kani::stub(Bump::alloc_layout_slow, no_slow)]
fn k_box_roundtrips() {
    let b = mk_bump::<1>(448);
    let x: u32 = kani::any();
    let bx = Box::new_in(x, &b);
    assert!(*bx == x);
    let f_after_alloc = finger(&b);
    let y = Box::into_inner(bx);
    assert!(y == x);
    let bx2 = Box::new_in([x; 3], &b);
    let raw = Box::into_raw(bx2);
    let bx3 = unsafe { Box::from_raw(raw) };
    assert!(bx3[2] == x);
    let l: &mut [u32; 3] = Box::leak(bx3);
    assert!(l[0] == x);
    let z = Box::new_in((), &b);
    assert!(*z == ());
    let p = Box::pin_in(x, &b);
    assert!(*p == x);
    drop(z); drop(p);
    assert!(finger(&b) <= f_after_alloc, "C17 dropping a Box never releases arena memory");
    kani::cover!(x == 7);
    core::mem::forget(b);
}

#[kani::proof]
#[kani::unwind(12)]
#[kani::stub(Bump::alloc_layout_slow, no_slow)]
fn k_box_drop_once() {
    unsafe { reset_drops(); }
    let b = mk_bump::<1>(448);
    let f0 = finger(&b);
    let bx = Box::new_in(D(0), &b);
    let f1 = finger(&b);
    drop(bx);
    unsafe { assert!(DROPS[0] == 1, "C17 destructor runs exactly once"); }
    assert!(finger(&b) == f1 && f1 < f0, "C17 Box drop does not give memory back");
    let by = Box::new_in(D(1), &b);
    let inner = Box::into_inner(by);
    unsafe { assert!(DROPS[1] == 0, "C17 into_inner transfers ownership without dropping"); }
    drop(inner);
    unsafe { assert!(DROPS[1] == 1); }
    let bz = Box::new_in(D(2), &b);
    let _leaked: &mut D = Box::leak(bz);
    let bw = Box::new_in(D(3), &b);
    let raw = Box::into_raw(bw);
    unsafe { assert!(DROPS[2] == 0 && DROPS[3] == 0, "C17 leak / into_raw never run the destructor"); }
    drop(unsafe { Box::from_raw(raw) });
    unsafe { assert!(DROPS[3] == 1); }
    kani::cover!(true);
    core::mem::forget(b);
}

#[kani::proof]
#[kani::unwind(12)]
#[kani::stub(Bump::alloc_layout_slow, no_slow)]
fn k_box_slices_arrays() {
    unsafe { reset_drops(); }
    let b = mk_bump::<1>(448);
    let vals: [u8; 3] = kani::any();
    let arr = Box::new_in(vals, &b);
    let sl: Box<[u8]> = arr.into();
    assert!(sl.len() == 3 && sl[0] == vals[0] && sl[2] == vals[2], "C17 element order preserved");
    let back: Result<Box<[u8; 3]>, Box<[u8]>> = Box::try_from(sl);
    assert!(back.is_ok());
    let sl2: Box<[u8]> = back.unwrap().into();
    let wrong: Result<Box<[u8; 2]>, Box<[u8]>> = Box::try_from(sl2);
    assert!(wrong.is_err(), "C17 a slice of another length is handed back, not truncated");
    let orig = wrong.err().unwrap();
    assert!(orig.len() == 3 && orig[1] == vals[1]);
    drop(orig);
    kani::cover!(true);
    core::mem::forget(b);
}

#[kani::proof]
#[kani::unwind(12)]
#[kani::stub(Bump::alloc_layout_slow, no_slow)]
fn k_box_vec_to_boxed_slice() {
    unsafe { reset_drops(); }
    let b = mk_bump::<1>(448);
    let vals: [u8; 3] = kani::any();
    // Vec -> boxed slice keeps elements and ownership (drop once, by the box)
    let mut v: Vec<D> = Vec::with_capacity_in(4, &b);
    v.push(D(0)); v.push(D(1));
    let bs = v.into_boxed_slice();
    unsafe { assert!(DROPS[0] == 0 && DROPS[1] == 0); }
    assert!(bs.len() == 2 && bs[1].0 == 1);
    let wrong2: Result<Box<[D; 1]>, Box<[D]>> = Box::try_from(bs);
    assert!(wrong2.is_err());
    drop(wrong2);
    unsafe { assert!(DROPS[0] == 1 && DROPS[1] == 1, "C17 every element of a rejected conversion is still owned and dropped once"); }
    let fi = Box::from_iter_in(vals.iter().copied(), &b);
    assert!(fi.len() == 3 && fi[2] == vals[2]);
    kani::cover!(true);
    drop(fi);
    core::mem::forget(b);
}

#[kani::proof]
#[kani::unwind(12)]
#[kani::stub(Bump::alloc_layout_slow, no_slow)]
fn k_box_downcast() {
    let b = mk_bump::<1>(448);
    let x: u32 = kani::any();
    let bx = Box::new_in(x, &b);
    let raw = Box::into_raw(bx) as *mut dyn Any;
    let any: Box<dyn Any> = unsafe { Box::from_raw(raw) };
    let miss = any.downcast::<u64>();
    assert!(miss.is_err(), "C17 non-matching downcast hands the box back");
    let any = miss.err().unwrap();
    let hit = any.downcast::<u32>();
    assert!(hit.is_ok() && *hit.unwrap() == x, "C17 matching downcast preserves the value");
    kani::cover!(x == 9);
    core::mem::forget(b);
}

/// a boxed slice made from a vector with spare capacity keeps its contents when the arena is used afterwards (C17/C13)
#[kani::proof]
#[kani::unwind(20)]
#[kani::stub(Bump::alloc_layout_slow, no_slow)]
fn k_box_from_vec_then_alloc() {
    let b = mk_bump::<1>(448);
    let vals: [u32; 2] = kani::any();
    let mut v: Vec<u32> = Vec::with_capacity_in(8, &b);
    v.push(vals[0]); v.push(vals[1]);
    let bs = v.into_boxed_slice();
    let later = b.alloc_slice_fill_copy(16, 0xEEEEEEEEu32);
    assert!(bs.len() == 2 && bs[0] == vals[0] && bs[1] == vals[1], "C17 boxed slice intact after later allocations");
    assert!(later[0] == 0xEEEEEEEE && later[15] == 0xEEEEEEEE);
    kani::cover!(true);
    core::mem::forget(bs); core::mem::forget(b);
}

/// zero-sized elements: the length check of the slice -> array conversion cannot be replaced by a byte-size check (C17)
#[kani::proof]
#[kani::unwind(12)]
#[kani::stub(Bump::alloc_layout_slow, no_slow)]
fn k_box_zst_slice_to_array() {
    let b = mk_bump::<1>(448);
    let arr: Box<[(); 3]> = Box::new_in([(); 3], &b);
    let sl: Box<[()]> = arr.into();
    assert!(sl.len() == 3);
    let wrong: Result<Box<[(); 2]>, Box<[()]>> = Box::try_from(sl);
    assert!(wrong.is_err(), "C17 a zero-sized slice of another length is refused too");
    let back = wrong.err().unwrap();
    assert!(back.len() == 3);
    let right: Result<Box<[(); 3]>, Box<[()]>> = Box::try_from(back);
    assert!(right.is_ok());
    kani::cover!(true);
    drop(right);
    core::mem::forget(b);
}
