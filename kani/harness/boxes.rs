//! placeholder, filled in below
