//! K-vec / K-drop: `collections::Vec` against a sequence model (std's documented semantics).  BOUNDED: every length 0..=3 and
//! every index / range argument for those lengths is ENUMERATED CONCRETELY (a symbolic length or index turns every memmove
//! into a symbolic-size copy: > 30 GB in CBMC), element values are SYMBOLIC u8; one 448-byte chunk; the slow path is stubbed
//! out.  Out-of-range arguments are `#[kani::should_panic]` twins.
use super::util::*;
use crate::collections::Vec;
use crate::*;
use core::alloc::Layout;
use core::ptr::NonNull;

fn no_slow<const MIN_ALIGN: usize>(_b: &Bump<MIN_ALIGN>, _l: Layout) -> Option<NonNull<u8>> { kani::assume(false); None }

const CAP: usize = 8;
struct Model { a: [u8; 8], n: usize }
impl Model {
    fn insert(&mut self, i: usize, x: u8) { let mut k = self.n; while k > i { self.a[k] = self.a[k - 1]; k -= 1; } self.a[i] = x; self.n += 1; }
    fn remove(&mut self, i: usize) -> u8 { let x = self.a[i]; let mut k = i; while k + 1 < self.n { self.a[k] = self.a[k + 1]; k += 1; } self.n -= 1; x }
}
fn same(v: &Vec<u8>, m: &Model) -> bool {
    if v.len() != m.n { return false; }
    let mut ok = true; let mut i = 0;
    while i < m.n { if v[i] != m.a[i] { ok = false; } i += 1; }
    ok
}
fn mk<'a>(b: &'a Bump, n: usize, cap: usize) -> (Vec<'a, u8>, Model) {
    let vals: [u8; 8] = kani::any();
    let mut v = Vec::with_capacity_in(cap, b);
    let mut i = 0;
    while i < n { v.push(vals[i]); i += 1; }
    (v, Model { a: vals, n })
}
/// a neighbour collection in the same arena whose contents must never be disturbed (C13 "neighbours")
fn canary<'a>(b: &'a Bump) -> Vec<'a, u8> { let mut c = Vec::with_capacity_in(2, b); c.push(0xA5); c.push(0x5A); c }
fn canary_ok(c: &Vec<u8>) -> bool { c.len() == 2 && c[0] == 0xA5 && c[1] == 0x5A }

#[kani::proof]
#[kani::unwind(12)]
#[kani::stub(Bump::alloc_layout_slow, no_slow)]
fn k_vec_push_pop_grow() {
    let mut n = 2;
    while n <= 2 {
        let b = mk_bump::<1>(448);
        let c = canary(&b);
        let (mut v, mut m) = mk(&b, n, 2);      // capacity 2: pushing beyond it reallocates through the arena
        let x: u8 = kani::any();
        v.push(x); m.a[m.n] = x; m.n += 1;
        assert!(same(&v, &m) && v.capacity() >= v.len() && canary_ok(&c));
        assert!(v.pop() == Some(x)); m.n -= 1;
        assert!(same(&v, &m));
        let mut e: Vec<u8> = Vec::new_in(&b);
        assert!(e.pop().is_none() && e.len() == 0);
        e.push(x);                               // growth from the unallocated state, next to the others
        assert!(e[0] == x && same(&v, &m) && canary_ok(&c), "C13 neighbours undisturbed");
        core::mem::forget(v); core::mem::forget(e); core::mem::forget(c); core::mem::forget(b);
        n += 1;
    }
    kani::cover!(true);
}

#[kani::proof]
#[kani::unwind(12)]
#[kani::stub(Bump::alloc_layout_slow, no_slow)]
fn k_vec_insert_remove() {
    // one concrete shape per harness instance (n = 3, insert at 1, remove at 2); contents symbolic
    ins_rem(3, 1, 2)
}
fn ins_rem(n: usize, i: usize, j: usize) {
    let b = mk_bump::<1>(448);
    let c = canary(&b);
    let (mut v, mut m) = mk(&b, n, CAP);
    let x: u8 = kani::any();
    v.insert(i, x); m.insert(i, x);
    assert!(same(&v, &m) && canary_ok(&c));
    let r = v.remove(j);
    assert!(r == m.remove(j) && same(&v, &m) && canary_ok(&c));
    kani::cover!(true);
    core::mem::forget(v); core::mem::forget(c); core::mem::forget(b);
}
#[kani::proof]
#[kani::unwind(12)]
#[kani::stub(Bump::alloc_layout_slow, no_slow)]
fn k_vec_insert_remove_ends() { ins_rem(2, 0, 2); ins_rem(1, 1, 0); }
fn oob<F: FnOnce(&mut Vec<u8>, usize)>(f: F) { let b = mk_bump::<1>(448); let (mut v, m) = mk(&b, 2, CAP); f(&mut v, m.n); core::mem::forget(v); core::mem::forget(b); }
#[kani::proof]
#[kani::unwind(12)]
#[kani::should_panic]
#[kani::stub(Bump::alloc_layout_slow, no_slow)]
fn k_vec_insert_oob() { oob(|v, n| v.insert(n + 1, 1)) }
#[kani::proof]
#[kani::unwind(12)]
#[kani::should_panic]
#[kani::stub(Bump::alloc_layout_slow, no_slow)]
fn k_vec_remove_oob() { oob(|v, n| { v.remove(n); }) }
#[kani::proof]
#[kani::unwind(12)]
#[kani::should_panic]
#[kani::stub(Bump::alloc_layout_slow, no_slow)]
fn k_vec_swap_remove_oob() { oob(|v, n| { v.swap_remove(n); }) }
#[kani::proof]
#[kani::unwind(12)]
#[kani::should_panic]
#[kani::stub(Bump::alloc_layout_slow, no_slow)]
fn k_vec_split_off_oob() { oob(|v, n| { let t = v.split_off(n + 1); core::mem::forget(t); }) }
#[kani::proof]
#[kani::unwind(12)]
#[kani::should_panic]
#[kani::stub(Bump::alloc_layout_slow, no_slow)]
fn k_vec_drain_oob() { oob(|v, n| { let _d = v.drain(1..n + 1); }) }
#[kani::proof]
#[kani::unwind(12)]
#[kani::should_panic]
#[kani::stub(Bump::alloc_layout_slow, no_slow)]
fn k_vec_drain_inverted() { oob(|v, _n| { let _d = v.drain(2..1); }) }

#[kani::proof]
#[kani::unwind(12)]
#[kani::stub(Bump::alloc_layout_slow, no_slow)]
fn k_vec_swap_remove_truncate() {
    let b = mk_bump::<1>(448);
    let (mut v, mut m) = mk(&b, 3, CAP);
    let r = v.swap_remove(0);
    assert!(r == m.a[0]); m.a[0] = m.a[2]; m.n = 2;
    assert!(same(&v, &m));
    v.truncate(5); assert!(same(&v, &m));
    v.truncate(1); m.n = 1; assert!(same(&v, &m));
    v.clear(); assert!(v.len() == 0 && v.is_empty());
    kani::cover!(true);
    core::mem::forget(v); core::mem::forget(b);
}

#[kani::proof]
#[kani::unwind(12)]
#[kani::stub(Bump::alloc_layout_slow, no_slow)]
fn k_vec_resize_extend() {
    let b = mk_bump::<1>(448);
    let c = canary(&b);
    let (mut v, mut m) = mk(&b, 1, 2);
    let x: u8 = kani::any();
    v.resize(3, x);                                   // grows beyond the capacity of 2: reallocates through the arena
    m.a[1] = x; m.a[2] = x; m.n = 3;
    assert!(same(&v, &m) && v.capacity() >= v.len() && canary_ok(&c));
    v.resize(2, x); m.n = 2;
    assert!(same(&v, &m));
    let ext: [u8; 2] = kani::any();
    v.extend_from_slice(&ext[..1]); m.a[2] = ext[0]; m.n = 3;
    v.extend_from_slice_copy(&ext); m.a[3] = ext[0]; m.a[4] = ext[1]; m.n = 5;
    assert!(same(&v, &m) && canary_ok(&c));
    kani::cover!(true);
    core::mem::forget(v); core::mem::forget(c); core::mem::forget(b);
}

#[kani::proof]
#[kani::unwind(12)]
#[kani::stub(Bump::alloc_layout_slow, no_slow)]
fn k_vec_append_split_off() {
    let b = mk_bump::<1>(448);
    let (mut v, mut m) = mk(&b, 2, CAP);
    let (mut o, mo) = mk(&b, 1, CAP);
    v.append(&mut o);
    m.a[2] = mo.a[0]; m.n = 3;
    assert!(same(&v, &m) && o.len() == 0);
    let tail = v.split_off(1);
    assert!(v.len() == 1 && tail.len() == 2 && v[0] == m.a[0] && tail[0] == m.a[1] && tail[1] == m.a[2]);
    let t2 = v.split_off(1);
    assert!(t2.len() == 0 && v.len() == 1);
    kani::cover!(true);
    core::mem::forget(v); core::mem::forget(o); core::mem::forget(tail); core::mem::forget(t2); core::mem::forget(b);
}

#[kani::proof]
#[kani::unwind(12)]
#[kani::stub(Bump::alloc_layout_slow, no_slow)]
fn k_vec_drain() { drain_h(3, 1, 2, 1); }
fn drain_h(n: usize, s: usize, e: usize, take: usize) {
    let b = mk_bump::<1>(448);
    let (mut v, m) = mk(&b, n, CAP);
    {
        let mut d = v.drain(s..e);
        if take > 0 { if let Some(x) = d.next() { assert!(x == m.a[s]); } }
        if take > 1 { if let Some(x) = d.next_back() { assert!(e - s >= 2 && x == m.a[e - 1]); } }
    }
    assert!(v.len() == m.n - (e - s));
    let mut k = 0; while k < v.len() { if k < s { assert!(v[k] == m.a[k]); } else { assert!(v[k] == m.a[k + (e - s)]); } k += 1; }
    kani::cover!(true);
    core::mem::forget(v); core::mem::forget(b);
}
#[kani::proof]
#[kani::unwind(12)]
#[kani::stub(Bump::alloc_layout_slow, no_slow)]
fn k_vec_drain_wide() { drain_h(3, 0, 3, 2); drain_h(3, 2, 2, 0); }

#[kani::proof]
#[kani::unwind(12)]
#[kani::stub(Bump::alloc_layout_slow, no_slow)]
fn k_vec_retain_dedup() {
    let mut n = 3;
    while n <= 3 {
        let b = mk_bump::<1>(448);
        let (mut v, m) = mk(&b, n, CAP);
        let mut w = v.clone();
        assert!(same(&w, &m));
        v.retain(|x| *x & 1 == 0);
        let mut exp = Model { a: [0; 8], n: 0 };
        let mut k = 0; while k < m.n { if m.a[k] & 1 == 0 { exp.a[exp.n] = m.a[k]; exp.n += 1; } k += 1; }
        assert!(same(&v, &exp));
        w.dedup();
        let mut ex2 = Model { a: [0; 8], n: 0 };
        let mut k = 0; while k < m.n { if ex2.n == 0 || ex2.a[ex2.n - 1] != m.a[k] { ex2.a[ex2.n] = m.a[k]; ex2.n += 1; } k += 1; }
        assert!(same(&w, &ex2));
        if n == 3 { kani::cover!(exp.n == 1 && ex2.n == 2); }
        core::mem::forget(v); core::mem::forget(w); core::mem::forget(b);
        n += 1;
    }
}

#[kani::proof]
#[kani::unwind(12)]
#[kani::stub(Bump::alloc_layout_slow, no_slow)]
fn k_vec_drain_filter() {
    let mut n = 3;
    while n <= 3 {
        let b = mk_bump::<1>(448);
        let (mut v, m) = mk(&b, n, CAP);
        let mut got = Model { a: [0; 8], n: 0 };
        {
            let mut df = v.drain_filter(|x| *x >= 128);
            let mut k = 0; while k <= n { if let Some(x) = df.next() { got.a[got.n] = x; got.n += 1; } k += 1; }
        }
        let (mut keep, mut out) = (Model { a: [0; 8], n: 0 }, Model { a: [0; 8], n: 0 });
        let mut k = 0; while k < m.n { if m.a[k] >= 128 { out.a[out.n] = m.a[k]; out.n += 1; } else { keep.a[keep.n] = m.a[k]; keep.n += 1; } k += 1; }
        assert!(same(&v, &keep) && got.n == out.n);
        let mut k = 0; while k < out.n { assert!(got.a[k] == out.a[k]); k += 1; }
        if n == 3 { kani::cover!(out.n == 1 && keep.n == 2); }
        core::mem::forget(v); core::mem::forget(b);
        n += 1;
    }
}

/// reserve / shrink_to_fit next to other growing collections; capacity promises (C13, C18); the data must follow the buffer
#[kani::proof]
#[kani::unwind(20)]
#[kani::stub(Bump::alloc_layout_slow, no_slow)]
fn k_vec_reserve_shrink() { reserve_shrink(2, 9); }
fn reserve_shrink(n: usize, add: usize) {
    let b = mk_bump::<1>(448);
    let c = canary(&b);
    let (mut v, m) = mk(&b, n, 4);
    v.reserve(add);
    assert!(v.capacity() >= v.len() + add, "C13/C18 reserve promise");
    let p0 = v.as_ptr() as usize;
    let mut mm = Model { a: m.a, n: m.n };
    let mut k = 0;
    while k < add && k < 2 { v.push(7); mm.a[mm.n] = 7; mm.n += 1; k += 1; }
    assert!(v.as_ptr() as usize == p0, "C18 pushes within the reserved capacity do not move the buffer");
    v.shrink_to_fit();
    assert!(v.capacity() >= v.len() && same(&v, &mm));
    // later allocations in the same arena must not land on the (possibly moved) buffer
    let n1 = b.alloc_slice_fill_copy(16, 0xEEu8);
    let mut o: Vec<u8> = Vec::with_capacity_in(8, &b); o.push(0xDD); o.push(0xDD);
    assert!(n1[0] == 0xEE && n1[15] == 0xEE && same(&v, &mm) && canary_ok(&c), "C13 neighbours never disturb each other");
    assert!(v.try_reserve(1).is_ok());
    kani::cover!(true);
    core::mem::forget(v); core::mem::forget(o); core::mem::forget(c); core::mem::forget(b);
}
#[kani::proof]
#[kani::unwind(20)]
#[kani::stub(Bump::alloc_layout_slow, no_slow)]
fn k_vec_reserve_shrink_small() { reserve_shrink(3, 0); reserve_shrink(0, 1); }
/// shrink_to_fit of the last allocation with capacity >= 2x length MOVES the buffer inside the arena
#[kani::proof]
#[kani::unwind(20)]
#[kani::stub(Bump::alloc_layout_slow, no_slow)]
fn k_vec_shrink_moves() { reserve_shrink(1, 0); }

#[kani::proof]
#[kani::unwind(12)]
#[kani::stub(Bump::alloc_layout_slow, no_slow)]
fn k_vec_into_iter_slices() {
    let mut n = 3;
    while n <= 3 {
        let b = mk_bump::<1>(448);
        let (v, m) = mk(&b, n, CAP);
        let w = v.clone();
        let u = v.clone();
        let mut it = v.into_iter();
        if m.n > 0 { assert!(it.next() == Some(m.a[0])); }
        if m.n > 1 { assert!(it.next_back() == Some(m.a[m.n - 1])); assert!(it.len() == m.n - 2); }
        drop(it);
        let s = w.into_bump_slice();
        assert!(s.len() == m.n);
        let bx = u.into_boxed_slice();
        assert!(bx.len() == m.n);
        // allocate after the conversion: the boxed slice and the bump slice keep their contents (C17)
        let later = b.alloc_slice_fill_copy(24, 0x33u8);
        let mut k = 0; while k < m.n { assert!(s[k] == m.a[k] && bx[k] == m.a[k]); k += 1; }
        assert!(later[23] == 0x33 && later[0] == 0x33);
        let f: Vec<u8> = Vec::from_iter_in(s.iter().copied(), &b);
        assert!(same(&f, &m));
        core::mem::forget(bx); core::mem::forget(f); core::mem::forget(b);
        n += 1;
    }
    kani::cover!(true);
}

#[kani::proof]
#[kani::unwind(12)]
#[kani::stub(Bump::alloc_layout_slow, no_slow)]
fn k_vec_splice() {
    let b = mk_bump::<1>(448);
    let (mut v, m) = mk(&b, 3, CAP);
    let rep: [u8; 2] = kani::any();
    { let _sp = v.splice(1..2, rep.iter().copied()); }
    assert!(v.len() == 4 && v[0] == m.a[0] && v[1] == rep[0] && v[2] == rep[1] && v[3] == m.a[2]);
    { let _sp = v.splice(0..2, rep[..0].iter().copied()); }
    assert!(v.len() == 2 && v[0] == rep[1] && v[1] == m.a[2]);
    kani::cover!(true);
    core::mem::forget(v); core::mem::forget(b);
}

/// zero-sized elements: lengths only, capacity is usize::MAX, nothing is ever allocated
#[kani::proof]
#[kani::unwind(12)]
#[kani::stub(Bump::alloc_layout_slow, no_slow)]
fn k_vec_zst() {
    let mut n = 0;
    while n <= 3 {
        let b = mk_bump::<1>(448);
        let f0 = finger(&b);
        let mut v: Vec<()> = Vec::new_in(&b);
        let mut k = 0; while k < n { v.push(()); k += 1; }
        assert!(v.len() == n && v.capacity() == usize::MAX);
        if n > 0 { v.remove(0); assert!(v.len() == n - 1); }
        v.insert(0, ());
        assert!(v.pop() == Some(()));
        assert!(finger(&b) == f0, "ZST vectors never take arena memory");
        core::mem::forget(v); core::mem::forget(b);
        n += 1;
    }
    kani::cover!(true);
}
/// C19: counts beyond usize::MAX are refused for zero-sized elements too (only the count addition guards them)
#[kani::proof]
#[kani::unwind(12)]
#[kani::stub(Bump::alloc_layout_slow, no_slow)]
fn k_ovf_vec() {
    let b = mk_bump::<1>(448);
    let mut v: Vec<()> = Vec::new_in(&b);
    v.push(());
    let add: usize = kani::any();
    kani::assume(add == usize::MAX || add == usize::MAX - 1);
    let r = v.try_reserve(add);
    assert!(r.is_err() == (add == usize::MAX), "C19 len + additional > usize::MAX is refused");
    let mut w: Vec<u64> = Vec::new_in(&b);
    let big: usize = kani::any();
    kani::assume(big > (isize::MAX as usize) / 8);
    assert!(w.try_reserve(big).is_err() && w.try_reserve_exact(big).is_err(), "C19 byte size beyond isize::MAX is refused");
    assert!(w.capacity() == 0);
    kani::cover!(true);
    core::mem::forget(v); core::mem::forget(w); core::mem::forget(b);
}

// =====================================================================================================================
// K-drop (C15): elements with observable destructors
// =====================================================================================================================
pub static mut DROPS: [u8; 8] = [0; 8];
pub struct D(pub u8);
impl Drop for D { fn drop(&mut self) { unsafe { DROPS[self.0 as usize] += 1; } } }
unsafe fn reset_drops() { let mut i = 0; while i < 8 { DROPS[i] = 0; i += 1; } }
unsafe fn drops(i: usize) -> u8 { DROPS[i] }
fn mkd<'a>(b: &'a Bump, n: usize) -> Vec<'a, D> { let mut v = Vec::with_capacity_in(4, b); let mut i = 0; while i < n { v.push(D(i as u8)); i += 1; } v }
unsafe fn all_once(n: usize) -> bool { let mut ok = true; let mut i = 0; while i < n { if DROPS[i] != 1 { ok = false; } i += 1; } ok }
unsafe fn none_dropped(n: usize) -> bool { let mut ok = true; let mut i = 0; while i < n { if DROPS[i] != 0 { ok = false; } i += 1; } ok }

#[kani::proof]
#[kani::unwind(12)]
#[kani::stub(Bump::alloc_layout_slow, no_slow)]
fn k_drop_vec_ops() {
    let mut n = 1;
    while n <= 3 {
        let mut t = 0;
        while t <= 2 {
            unsafe { reset_drops(); }
            let b = mk_bump::<1>(448);
            let mut v = mkd(&b, n);
            let x = v.pop().unwrap();
            unsafe { assert!(none_dropped(n), "C15 pop hands the value to the caller"); }
            drop(x);
            unsafe { assert!(drops(n - 1) == 1); }
            if n >= 2 {
                let y = if kani::any() { v.remove(0) } else { v.swap_remove(0) };
                let id = y.0 as usize;
                unsafe { assert!(drops(id) == 0, "C15 remove hands the value to the caller"); }
                drop(y);
            }
            v.truncate(t);
            drop(v);
            unsafe { assert!(all_once(n), "C15 every element dropped exactly once"); }
            core::mem::forget(b);
            t += 2;
        }
        n += 1;
    }
    kani::cover!(true);
}

#[kani::proof]
#[kani::unwind(12)]
#[kani::stub(Bump::alloc_layout_slow, no_slow)]
fn k_drop_iters() {
    let n = 3;
    let mut take = 0;
    while take <= 2 {
        unsafe { reset_drops(); }
        let b = mk_bump::<1>(448);
        let v = mkd(&b, n);
        let mut it = v.into_iter();
        if take > 0 { let _ = it.next(); }        // a consumed item is dropped by the caller (here: at once)
        if take > 1 { let _ = it.next_back(); }
        drop(it);                                  // the rest by the iterator
        unsafe { assert!(all_once(n), "C15 into_iter: consumed + remaining, each exactly once"); reset_drops(); }
        let mut w = mkd(&b, n);
        { let mut d = w.drain(1..3); if take > 0 { let _ = d.next(); } }
        unsafe { assert!(drops(0) == 0 && drops(1) == 1 && drops(2) == 1, "C15 drain drops exactly the drained range"); }
        drop(w);
        unsafe { assert!(all_once(n)); }
        core::mem::forget(b);
        take += 1;
    }
    kani::cover!(true);
}

#[kani::proof]
#[kani::unwind(12)]
#[kani::stub(Bump::alloc_layout_slow, no_slow)]
fn k_drop_dedup_retain() {
    let mut n = 3;
    while n <= 3 {
        unsafe { reset_drops(); }
        let b = mk_bump::<1>(448);
        let mut v = mkd(&b, n);
        let keys: [u8; 4] = kani::any();
        if kani::any() {
            v.dedup_by_key(|d| keys[d.0 as usize]);
        } else {
            v.retain(|d| keys[d.0 as usize] & 1 == 0);
        }
        // every element is either still in the vector (not dropped) or was removed (dropped once)
        let mut present = [false; 4];
        let mut k = 0; while k < v.len() { present[v[k].0 as usize] = true; k += 1; }
        let mut k = 0; while k < n { unsafe { assert!(drops(k) == if present[k] { 0 } else { 1 }, "C15 removed elements dropped once, kept ones not at all"); } k += 1; }
        drop(v);
        unsafe { assert!(all_once(n)); }
        core::mem::forget(b);
        n += 1;
    }
    kani::cover!(true);
}

/// dedup with a concrete key pattern [1, 1, 2]: the removed duplicate is dropped exactly once, the survivors once at the end
#[kani::proof]
#[kani::unwind(12)]
#[kani::stub(Bump::alloc_layout_slow, no_slow)]
fn k_drop_dedup() {
    unsafe { reset_drops(); }
    let b = mk_bump::<1>(448);
    let mut v = mkd(&b, 3);
    let keys = [1u8, 1, 2, 0];
    v.dedup_by_key(|d| keys[d.0 as usize]);
    assert!(v.len() == 2 && v[0].0 == 0 && v[1].0 == 2);
    unsafe { assert!(drops(0) == 0 && drops(1) == 1 && drops(2) == 0, "C15 the removed duplicate is dropped once, nothing else"); }
    drop(v);
    unsafe { assert!(all_once(3)); }
    kani::cover!(true);
    core::mem::forget(b);
}

/// leak amplification instead of double drop: a forgotten DrainFilter / Drain must never lead to a second drop (C15/C16)
#[kani::proof]
#[kani::unwind(12)]
#[kani::stub(Bump::alloc_layout_slow, no_slow)]
fn k_drop_forgotten_iterators() {
    let n = 3;
    unsafe { reset_drops(); }
    let b = mk_bump::<1>(448);
    let mut v = mkd(&b, n);
    let sel: [bool; 4] = kani::any();
    {
        let mut df = v.drain_filter(|d| sel[d.0 as usize]);
        let first = df.next();
        core::mem::forget(df);
        drop(first);
    }
    drop(v);
    let mut k = 0; while k < n { unsafe { assert!(drops(k) <= 1, "C15/C16 never dropped twice (leaking is allowed)"); } k += 1; }
    unsafe { reset_drops(); }
    let mut w = mkd(&b, n);
    { let mut d = w.drain(0..1); let x = d.next(); core::mem::forget(d); drop(x); }
    drop(w);
    let mut k = 0; while k < n { unsafe { assert!(drops(k) <= 1); } k += 1; }
    kani::cover!(true);
    core::mem::forget(b);
}

// (a drop-ledger harness for `splice` with an inexact size_hint exceeded the CBMC budget (> 10 GB) and was removed)

/// zero-sized elements with destructors
pub static mut ZDROPS: usize = 0;
pub struct Z;
impl Drop for Z { fn drop(&mut self) { unsafe { ZDROPS += 1; } } }
#[kani::proof]
#[kani::unwind(12)]
#[kani::stub(Bump::alloc_layout_slow, no_slow)]
fn k_drop_zst() {
    let mut n = 0;
    while n <= 3 {
        unsafe { ZDROPS = 0; }
        let b = mk_bump::<1>(448);
        let mut v: Vec<Z> = Vec::new_in(&b);
        let mut k = 0; while k < n { v.push(Z); k += 1; }
        // (into_iter over zero-sized elements does arithmetic on dangling pointers, which Kani cannot model: not exercised)
        if n >= 2 { let _ = v.pop(); let _ = v.remove(0); }
        drop(v);
        unsafe { assert!(ZDROPS == n, "C15 zero-sized elements are dropped exactly once too"); }
        let mut w: Vec<Z> = Vec::new_in(&b);
        w.push(Z); w.push(Z);
        w.truncate(1);
        unsafe { assert!(ZDROPS == n + 1); }
        drop(w);
        unsafe { assert!(ZDROPS == n + 2); }
        core::mem::forget(b);
        n += 1;
    }
    kani::cover!(true);
}

/// conversions that must NOT run destructors: into_bump_slice, arena reset/drop
#[kani::proof]
#[kani::unwind(12)]
#[kani::stub(Bump::alloc_layout_slow, no_slow)]
fn k_drop_no_destructors() {
    unsafe { reset_drops(); }
    let mut b = mk_bump::<1>(448);
    let n = 3;
    {
        let v = mkd(&b, n);
        let s = v.into_bump_slice();
        assert!(s.len() == n);
    }
    unsafe { assert!(none_dropped(n), "C15 into_bump_slice never runs destructors"); }
    {
        let v = mkd(&b, n);
        core::mem::forget(v);
    }
    b.reset();
    unsafe { assert!(none_dropped(n), "C15 arena reset never runs destructors"); }
    kani::cover!(true);
    core::mem::forget(b);
}

/// C16 (callback-point invariant): while retain/drain_filter call the predicate, the vector exposes none of its elements
/// (len == 0), so a panicking predicate can at worst leak
pub static mut VEC_PTR: *const Vec<'static, D> = core::ptr::null();
#[kani::proof]
#[kani::unwind(12)]
#[kani::stub(Bump::alloc_layout_slow, no_slow)]
fn k_cb_retain_len_zero() {
    let n = 3;
    let b = mk_bump::<1>(448);
    let mut v = mkd(&b, n);
    unsafe { VEC_PTR = &v as *const Vec<D> as *const Vec<'static, D>; }
    let mut calls = 0;
    v.retain(|_d| { calls += 1; unsafe { assert!((*VEC_PTR).len() == 0, "C16 nothing reachable while user code runs"); } true });
    assert!(calls == n && v.len() == n);
    kani::cover!(true);
    core::mem::forget(v); core::mem::forget(b);
}
