//! Engine K harnesses that live INSIDE `collections::str` of the scratch copy (the module is private to `collections`):
//! the forked lossy UTF-8 chunk decoder and the width table against the definition (Unicode 15, table 3-7, and the
//! "maximal subpart" rule std uses for U+FFFD substitution).  SYMBOLIC bytes, no arena involved: all byte strings of
//! length <= 4 -- complete for those lengths.
#![allow(dead_code)]
use super::lossy::Utf8Lossy;

/// reference: (bytes of the longest well-formed prefix, length of the maximal invalid subpart that follows it)
fn reference(b: &[u8]) -> (usize, usize) {
    let n = b.len();
    let mut i = 0;
    while i < n {
        let c = b[i];
        let (need, lo, hi): (usize, u8, u8) =
            if c < 0x80 { (0, 0, 0) }
            else if c >= 0xC2 && c <= 0xDF { (1, 0x80, 0xBF) }
            else if c == 0xE0 { (2, 0xA0, 0xBF) }
            else if c == 0xED { (2, 0x80, 0x9F) }
            else if c >= 0xE1 && c <= 0xEF { (2, 0x80, 0xBF) }
            else if c == 0xF0 { (3, 0x90, 0xBF) }
            else if c >= 0xF1 && c <= 0xF3 { (3, 0x80, 0xBF) }
            else if c == 0xF4 { (3, 0x80, 0x8F) }
            else { return (i, 1); };
        if need >= 1 { if i + 1 >= n || b[i + 1] < lo || b[i + 1] > hi { return (i, 1); } }
        if need >= 2 { if i + 2 >= n || b[i + 2] < 0x80 || b[i + 2] > 0xBF { return (i, 2); } }
        if need >= 3 { if i + 3 >= n || b[i + 3] < 0x80 || b[i + 3] > 0xBF { return (i, 3); } }
        i += need + 1;
    }
    (n, 0)
}

fn lossy_first_chunk(n: usize) {
    let bytes: [u8; 4] = kani::any();
    let input = &bytes[..n];
    let (valid_len, broken_len) = reference(input);
    let mut it = Utf8Lossy::from_bytes(input).chunks();
    match it.next() {
        None => assert!(n == 0),
        Some(ch) => {
            assert!(ch.valid.len() == valid_len, "C14 the well-formed prefix is exactly the one the definition gives");
            assert!(ch.broken.len() == broken_len, "C14 the replaced part is the maximal invalid subpart (what std replaces by one U+FFFD)");
            let mut k = 0;
            while k < 4 { if k < valid_len { assert!(ch.valid.as_bytes()[k] == input[k]); } k += 1; }
        }
    }
    kani::cover!(n > 0 && broken_len == 0 && valid_len == n);
    kani::cover!(broken_len > 0);
}
#[kani::proof]
#[kani::unwind(8)]
fn k_lossy_chunk_3() { lossy_first_chunk(3) }
#[kani::proof]
#[kani::unwind(8)]
fn k_lossy_chunk_4() { lossy_first_chunk(4) }
#[kani::proof]
#[kani::unwind(8)]
fn k_lossy_chunk_2() { lossy_first_chunk(2) }

/// the forked UTF-8 width table against the definition, all 256 first bytes (loop-free: complete)
#[kani::proof]
fn k_width_table() {
    let x: u8 = kani::any();
    let w = super::utf8_char_width(x);
    let exp = if x < 0x80 { 1 } else if x < 0xC2 { 0 } else if x < 0xE0 { 2 } else if x < 0xF0 { 3 } else if x < 0xF5 { 4 } else { 0 };
    assert!(w == exp, "C14 width table");
    kani::cover!(w == 4);
}
