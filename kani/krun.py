"""Engine K driver: run Kani harnesses from /verif/kani/harness on a scratch copy of the working tree."""
import json
import os
import resource
import re
import shutil
import subprocess
import tempfile
import time

ROOT = os.path.dirname(os.path.dirname(os.path.abspath(__file__)))
HARNESS_DIR = os.path.join(ROOT, 'kani', 'harness')
FEATURES = 'collections,boxed,allocator-api2'


def all_harnesses():
    hs = {}
    for fn in sorted(os.listdir(HARNESS_DIR)):
        if not fn.endswith('.rs'):
            continue
        txt = open(os.path.join(HARNESS_DIR, fn)).read()
        for m in re.finditer(r'#\[kani::proof\](?:\s*#\[[^\]]*\])*\s*(?:pub )?fn (\w+)', txt):
            blk = txt[m.start():m.end()]
            um = re.search(r'kani::unwind\((\d+)\)', blk)
            hs[m.group(1)] = {'file': fn, 'unwind': int(um.group(1)) if um else None, 'should_panic': 'kani::should_panic' in blk}
    return hs


def have_harness(name):
    return name in all_harnesses()


def scratch_copy(repo):
    tmp = tempfile.mkdtemp(prefix='verif-k.', dir='/var/tmp')
    dst = os.path.join(tmp, 'crate')
    subprocess.run(['rsync', '-a', '--exclude', 'target', '--exclude', '.git', repo.rstrip('/') + '/', dst + '/'], check=True)
    lib = os.path.join(dst, 'src', 'lib.rs')
    with open(lib, 'a') as fh:
        fh.write('\n#[cfg(kani)]\n#[path = "%s/mod.rs"]\nmod verif_kani;\n' % HARNESS_DIR)
    # second injection point: `collections::str` is private to `collections`, its harnesses must live inside it
    smod = os.path.join(dst, 'src', 'collections', 'str', 'mod.rs')
    if os.path.exists(smod):
        with open(smod, 'a') as fh:
            fh.write('\n#[cfg(kani)]\n#[path = "%s/str_inner.rs"]\nmod verif_kani_str;\n' % HARNESS_DIR)
    os.makedirs(os.path.join(dst, '.cargo'), exist_ok=True)
    with open(os.path.join(dst, '.cargo', 'config.toml'), 'w') as fh:
        fh.write('[net]\noffline = true\n')
    return tmp, dst


def fq(name):
    hs = all_harnesses()
    if hs[name]['file'] == 'str_inner.rs':
        return 'collections::str::verif_kani_str::%s' % name
    return 'verif_kani::%s::%s' % (hs[name]['file'][:-3], name)


VMEM_LIMIT = int(os.environ.get('VERIF_KANI_VMEM_GB', '9')) << 30
MAX_JOBS = int(os.environ.get('VERIF_KANI_JOBS', '6'))


def _limit():
    # memory guard: every process of the cargo-kani tree (rustc, goto-instrument, cbmc) gets an address-space limit, so one
    # exploding harness ends as "undecided" (CBMC reports out of memory) instead of taking the machine down (62 GB, no swap)
    resource.setrlimit(resource.RLIMIT_AS, (VMEM_LIMIT, VMEM_LIMIT))


def kani_cmd(harnesses, jobs, extra=(), harness_timeout=None):
    cmd = ['cargo', 'kani', '-Z', 'stubbing', '-Z', 'unstable-options', '--features', FEATURES, '--exact']
    if jobs and jobs > 1:
        cmd += ['--output-format', 'terse', '-j', str(jobs)]
    if harness_timeout:
        cmd += ['--harness-timeout', '%ds' % harness_timeout]
    for h in harnesses:
        cmd += ['--harness', fq(h)]
    return cmd + list(extra)


def parse_output(out):
    """-> {harness: {status, failed_checks[], unwinding_failed, cover_satisfied, checks, time_s}}.
    Handles both the sequential format and the thread-tagged format of `-j N`."""
    cur = {}            # thread -> harness name
    blocks = {}         # harness -> list of lines
    active = None
    for ln in out.split('\n'):
        m = re.match(r'^(?:Thread (\d+): )?Checking harness (\S+?)\.\.\.', ln)
        if m:
            t = m.group(1) or 'seq'
            cur[t] = m.group(2).split('::')[-1]
            blocks.setdefault(cur[t], [])
            active = cur[t] if m.group(1) is None else None
            continue
        m = re.match(r'^Thread (\d+):\s*(.*)$', ln)
        if m:
            active = cur.get(m.group(1))
            if active is not None and m.group(2):
                blocks[active].append(m.group(2))
            continue
        if active is not None:
            blocks[active].append(ln)
            if ln.startswith('Verification Time:') and 'seq' not in cur:
                active = None
    res = {}
    for name, lines in blocks.items():
        part = '\n'.join(lines)
        st = re.search(r'VERIFICATION:- (SUCCESSFUL|FAILED)', part)
        failed = re.findall(r'Failed Checks: (.*)', part)
        ncheck = re.search(r'\*\* (\d+) of (\d+) failed', part)
        cov = re.search(r'\*\* (\d+) of (\d+) cover properties satisfied', part)
        tm = re.search(r'Verification Time: ([\d.]+)s', part)
        if 'CBMC failed' in part or 'run out of memory' in part or 'CBMC timed out' in part:
            st = None
        if st and st.group(1) == 'FAILED' and not failed and ncheck and int(ncheck.group(1)) == 0:
            st = None   # "0 of N failed" yet FAILED: the back end was killed (memory), not a refutation
        res[name] = {
            'name': name,
            'status': st.group(1) if st else 'NO-VERDICT',   # timeout, memory limit, crash
            'failed_checks': failed[:12],
            'unwinding_failed': any('unwinding assertion' in f for f in failed),
            'checks': int(ncheck.group(2)) if ncheck else 0,
            'cover_satisfied': bool(cov and int(cov.group(1)) >= 1),
            'covers': [int(cov.group(1)), int(cov.group(2))] if cov else None,
            'time_s': float(tm.group(1)) if tm else None,
            'raw_tail': part[-1500:] if (not st or st.group(1) != 'SUCCESSFUL') else '',
        }
    return res


def run_harnesses(names, repo, outdir, prop=None, tier='quick', jobs=None, timeout=5400, harness_timeout=1500):
    from vrun import Undecided
    known = all_harnesses()
    missing = [n for n in names if n not in known]
    if missing:
        raise Undecided('kani harness(es) not found: %s' % missing)
    jobs = min(jobs or len(names), MAX_JOBS, len(names))
    tmp, dst = scratch_copy(repo)
    env = dict(os.environ, CARGO_NET_OFFLINE='true', RUSTFLAGS='--cap-lints warn', CARGO_TARGET_DIR=os.path.join(tmp, 'target'))
    cmd = kani_cmd(names, jobs, harness_timeout=harness_timeout)
    t0 = time.time()
    try:
        try:
            p = subprocess.run(cmd, cwd=dst, env=env, capture_output=True, text=True, timeout=timeout, preexec_fn=_limit)
        except subprocess.TimeoutExpired:
            raise Undecided('kani timed out after %ds on %s' % (timeout, names))
        out = p.stdout + '\n' + p.stderr
        os.makedirs(outdir, exist_ok=True)
        open(os.path.join(outdir, 'kani.log'), 'w').write(out)
        res = parse_output(out)
        if 'error: could not compile' in out or re.search(r'(?m)^error(\[E\d+\])?:', out) and not res:
            raise Undecided('kani could not build the scratch copy: %s' % '\n'.join(l for l in out.split('\n') if 'error' in l)[:1500])
        harnesses, failures = [], []
        for n in names:
            h = res.get(n)
            if h is None:
                raise Undecided('kani produced no verdict for harness %s' % n)
            h['bound'] = ('unwind %d' % known[n]['unwind']) if known[n]['unwind'] else 'loop-free'
            harnesses.append({k: v for k, v in h.items() if k != 'raw_tail'})
            if h['status'] == 'SUCCESSFUL':
                if known[n].get('should_panic'):
                    # success of a should_panic harness = the expected panic was reached on every path reaching it
                    if not h['failed_checks']:
                        raise Undecided('vacuity guard: should_panic harness %s reported no panic' % n)
                    h['cover_satisfied'] = True
                    continue
                if not h['cover_satisfied']:
                    raise Undecided('vacuity guard: no cover property of harness %s is satisfied' % n)
                continue
            if h['unwinding_failed'] and all('unwinding assertion' in f for f in h['failed_checks']):
                raise Undecided('unwinding bound too small in harness %s' % n)
            unsupported = [f for f in h['failed_checks'] if re.search(r'does not support|not supported|unsupported|Unsupported', f)]
            if unsupported and len(unsupported) == len(h['failed_checks']):
                raise Undecided('harness %s reaches a construct Kani does not support: %s' % (n, unsupported[0][:200]))
            if h['status'] == 'NO-VERDICT':
                raise Undecided('kani gave no verdict for %s (timeout / memory limit / crash): %s' % (n, h['raw_tail'][-400:]))
            f = {'obligation': 'kani.%s' % n, 'props': [prop] if prop else [], 'harness': n, 'kind': 'kani harness FAILED',
                 'kani_output': '\n'.join(h['failed_checks']) + '\n' + h['raw_tail'], 'function': None}
            # concrete counterexample + native playback
            try:
                cx = counterexample(n, repo, outdir, scratch=(tmp, dst, env))
                f.update(concrete_inputs=cx.get('concrete_inputs'), native_playback=cx.get('native_playback'),
                         failing_input_found=cx.get('failing_input_found'))
            except Exception as e:
                f['counterexample_error'] = repr(e)
            failures.append(f)
        return {'cmd': ' '.join(cmd) + '   (in a scratch copy of %s with the harness module appended to src/lib.rs)' % repo,
                'harnesses': harnesses, 'failures': failures, 'wall_s': time.time() - t0,
                'bounds': {h['name']: h['bound'] for h in harnesses}}
    finally:
        shutil.rmtree(tmp, ignore_errors=True)


def counterexample(name, repo, outdir, scratch=None):
    """run one harness with --concrete-playback=inplace; if CBMC has a trace, Kani writes a unit test with the concrete
    values into the harness file (of the scratch copy of the harness module) and `cargo kani playback` runs it natively."""
    own = scratch is None
    if own:
        tmp, dst = scratch_copy(repo)
        env = dict(os.environ, CARGO_NET_OFFLINE='true', RUSTFLAGS='--cap-lints warn', CARGO_TARGET_DIR=os.path.join(tmp, 'target'))
    else:
        tmp, dst, env = scratch
    try:
        # inplace playback edits the file holding the harness: give the scratch crate its own copy of the harness module
        hcopy = os.path.join(tmp, 'harness')
        if not os.path.exists(hcopy):
            shutil.copytree(HARNESS_DIR, hcopy)
            lib = os.path.join(dst, 'src', 'lib.rs')
            txt = open(lib).read().replace(HARNESS_DIR, hcopy)
            open(lib, 'w').write(txt)
            smod = os.path.join(dst, 'src', 'collections', 'str', 'mod.rs')
            if os.path.exists(smod):
                txt = open(smod).read().replace(HARNESS_DIR, hcopy)
                open(smod, 'w').write(txt)
        cmd = kani_cmd([name], 1, ['-Z', 'concrete-playback', '--concrete-playback=print'])
        p = subprocess.run(cmd, cwd=dst, env=env, capture_output=True, text=True, timeout=1800, preexec_fn=_limit)
        out = p.stdout + p.stderr
        m = re.search(r'```\s*\n(.*?#\[test\].*?)```', out, re.S)
        rec = {'harness': name, 'cmd': ' '.join(cmd), 'failing_input_found': False}
        if not m:
            rec['note'] = 'CBMC produced no concrete trace'
            rec['tail'] = out[-800:]
            return rec
        test_src = m.group(1)
        vecs = re.findall(r'vec!\[([^\]]*)\]', test_src)
        rec['concrete_inputs'] = [v.strip() for v in vecs][:40]
        rec['playback_test'] = test_src[:4000]
        # put the generated unit test into its own module of the scratch harness copy (std's Vec / vec! there do not clash
        # with the crate's own Vec) and play it back natively: the REAL code runs with CBMC's concrete values
        hs = all_harnesses()
        stem = hs[name]['file'][:-3]
        for fn_ in os.listdir(hcopy):
            if fn_.endswith('.rs') and fn_ != 'mod.rs':
                t = open(os.path.join(hcopy, fn_)).read()
                t = re.sub(r'(?m)^fn (k_\w+)', r'pub fn \1', t)
                open(os.path.join(hcopy, fn_), 'w').write(t)
        with open(os.path.join(hcopy, 'playback.rs'), 'w') as fh:
            fh.write('extern crate std;\nuse std::vec::Vec;\nuse std::vec;\nuse super::%s::%s;\n%s\n' % (stem, name, test_src))
        mtxt = open(os.path.join(hcopy, 'mod.rs')).read()
        if 'pub mod playback;' not in mtxt:
            open(os.path.join(hcopy, 'mod.rs'), 'w').write(mtxt + '\npub mod playback;\n')
        tname = re.search(r'fn (kani_concrete_playback_\w+)', test_src).group(1)
        pcmd = ['cargo', 'kani', 'playback', '-Z', 'concrete-playback', '--features', FEATURES, '--', tname]
        pp = subprocess.run(pcmd, cwd=dst, env=env, capture_output=True, text=True, timeout=1800)
        pout = pp.stdout + pp.stderr
        rec['native_playback'] = {'cmd': ' '.join(pcmd), 'exit': pp.returncode,
                                  'output': '\n'.join(l for l in pout.split('\n') if re.search(r'panicked|assert|test result|FAILED|C\d\d|^error', l))[-2500:]}
        rec['failing_input_found'] = ('test result: FAILED' in pout) or ('panicked at' in pout)
        return rec
    finally:
        if own:
            shutil.rmtree(tmp, ignore_errors=True)
