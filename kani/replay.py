"""Replay files: what failed, the verifier's output, and (where one exists) a concrete failing input re-executed
against the real code.  A V obligation has no counterexample of its own (Verus gives none); it is paired with
  * a native driver under /verif/replay/native*/ (address-dependent findings Kani cannot exhibit), and/or
  * a Kani harness whose CBMC trace is turned into concrete inputs and played back natively (krun.playback).
If neither yields a failing input the VIOLATION line ends with `no-failing-input-found`."""
import json
import os
import subprocess
import time

ROOT = os.path.dirname(os.path.dirname(os.path.abspath(__file__)))

# obligation-id prefix -> native driver (crate dir, bin or None, extra cargo args); exit code 1 + "VIOLATED" = failing input shown
NATIVE = [
    ('with_min_align.inv', ('native_nofeat', None, ())),
    ('try_with_capacity.inv', ('native_nofeat', None, ())),
    ('remaining.', ('native', 'f2_limit_ignored_when_over', ())),
    ('reset.accounting', ('native', 'f3_reset_accounting', ())),
    ('alloc_try_with.rewind', ('native', 'f4_rewind_new_chunk', ())),
    ('try_alloc_try_with.rewind', ('native', 'f4_rewind_new_chunk', ())),
    ('new_chunk.debug_assert', ('native', 'f7_zero_capacity_chunk', ())),
    ('debug_assert.never_fires<-new_chunk', ('native', 'f7_zero_capacity_chunk', ())),
    ('reset.recycles_completely', ('native', 'f3_reset_accounting', ())),
    ('alloc_layout_slow.decreases', ('native', 'f8_slow_path_nontermination', ())),
]

# obligation-id prefix -> paired Kani harness (loop-free, full domain) used to look for a concrete counterexample
KANI_PAIR = [
    ('round_up_to.', 'k_round_up_to'),
    ('round_up_to_unchecked.', 'k_round_up_to'),
    ('round_down_to.', 'k_round_down_to'),
    ('round_mut_ptr_down_to.', 'k_round_ptr'),
    ('round_mut_ptr_up_to_unchecked.', 'k_round_ptr'),
    ('is_pointer_aligned_to.', 'k_round_ptr'),
    ('ncmd.', 'k_ncmd'),
    ('fast.aligned', 'k_fast_448_m8'),
    ('fast.inv', 'k_fast_448_m8'),
    ('fast.', 'k_fast_448'),
    ('debug_assert.never_fires<-try_alloc_layout_fast', 'k_fast_448_m8'),
    ('debug_assert.never_fires<-dealloc', 'k_dealloc_m8'),
    ('debug_assert.never_fires<-shrink', 'k_shrink_m8'),
    ('shrink.aligned', 'k_shrink_m8'),
    ('grow.aligned', 'k_grow_align'),
    ('try_alloc_layout_fast.', 'k_fast_448'),
    ('dealloc.', 'k_dealloc'),
    ('shrink.', 'k_shrink'),
    ('grow.', 'k_grow'),
    ('chunk_capacity.', 'k_fast_448'),
    ('is_last_allocation.', 'k_dealloc'),
    ('remaining.', 'k_limit_remaining'),
    ('chunk_fits_under_limit.', 'k_limit_remaining'),
    ('alloc_try_with.', 'k_rewind'),
    ('try_alloc_try_with.', 'k_rewind'),
    ('new_chunk.', 'k_new_chunk'),
    ('reset.', 'k_list_1'),
    ('dealloc_chunk_list.', 'k_list_1'),
    ('drop.', 'k_list_1'),
    ('next.', 'k_list_1'),
    ('slow.', 'k_list_1'),
]


def run_native(spec, repo):
    crate, binname, extra = spec
    env = dict(os.environ, CARGO_TARGET_DIR='/var/tmp/verif-native-%d' % os.getpid(), RUSTFLAGS='--cap-lints warn', CARGO_NET_OFFLINE='true')
    src = os.path.join(ROOT, 'replay', crate)
    # build against the tree under test: copy the tiny crate and point its path dependency at `repo`
    import shutil, tempfile
    tmp = tempfile.mkdtemp(prefix='verif-replay-', dir='/var/tmp')
    try:
        shutil.copytree(src, os.path.join(tmp, 'c'))
        ct = os.path.join(tmp, 'c', 'Cargo.toml')
        txt = open(ct).read().replace('path = "/repo"', 'path = "%s"' % repo)
        open(ct, 'w').write(txt)
        outs = []
        found = False
        for prof in ([], ['--release']):
            cmd = ['cargo', 'run', '-q', '--offline'] + prof + (['--bin', binname] if binname else []) + list(extra)
            p = subprocess.run(cmd, cwd=os.path.join(tmp, 'c'), env=env, capture_output=True, text=True, timeout=900)
            tail = '\n'.join(l for l in (p.stdout + p.stderr).split('\n') if l and not l.startswith(('warning', ' ', '=', 'help', 'note')) and '-->' not in l)[-1500:]
            outs.append({'cmd': ' '.join(cmd), 'exit': p.returncode, 'output': tail})
            if p.returncode == 1 and 'VIOLATED' in p.stdout:
                found = True
                break
        return found, outs
    finally:
        shutil.rmtree(tmp, ignore_errors=True)
        shutil.rmtree(env['CARGO_TARGET_DIR'], ignore_errors=True)


_CX_CACHE = {}     # harness -> counterexample record (one search per harness and run, shared by all obligations paired with it)
_NATIVE_CACHE = {}


def make_replay(prop, f, repo, outdir, kres):
    rec = {
        'property': prop, 'obligation': f['obligation'], 'engine': f.get('engine'), 'function': f.get('function'),
        'source': f.get('src'), 'kind': f.get('kind'), 'generated_line': f.get('gen_line'), 'generated_text': f.get('gen_text'),
        'verifier_output': f.get('verus_output') or f.get('kani_output'),
        'repo': repo, 'created': time.strftime('%Y-%m-%dT%H:%M:%SZ', time.gmtime()),
        'failing_input_found': False,
    }
    if f.get('engine') == 'kani':
        rec['kani_harness'] = f.get('harness')
        rec['concrete_inputs'] = f.get('concrete_inputs')
        rec['native_playback'] = f.get('native_playback')
        rec['failing_input_found'] = bool(f.get('failing_input_found'))
    else:
        for pref, spec in NATIVE:
            if f['obligation'].startswith(pref):
                try:
                    if spec not in _NATIVE_CACHE:
                        _NATIVE_CACHE[spec] = run_native(spec, repo)
                    found, outs = _NATIVE_CACHE[spec]
                    rec['native_driver'] = {'crate': spec[0], 'bin': spec[1], 'runs': outs}
                    rec['failing_input_found'] = found
                except Exception as e:  # replay trouble never hides the violation
                    rec['native_driver_error'] = repr(e)
                break
        if not rec['failing_input_found']:
            for pref, h in KANI_PAIR:
                if f['obligation'].startswith(pref):
                    try:
                        import krun
                        if krun.have_harness(h):
                            if h not in _CX_CACHE:
                                _CX_CACHE[h] = krun.counterexample(h, repo, outdir)
                            r = _CX_CACHE[h]
                            rec['paired_kani_harness'] = r
                            rec['failing_input_found'] = bool(r.get('failing_input_found'))
                    except Exception as e:
                        rec['paired_kani_error'] = repr(e)
                    break
    f['failing_input_found'] = rec['failing_input_found']
    name = '%s-%s.json' % (prop, ''.join(c if c.isalnum() or c in '._-' else '_' for c in f['obligation']))
    path = os.path.join(ROOT, 'out', 'replays', name)
    os.makedirs(os.path.dirname(path), exist_ok=True)
    json.dump(rec, open(path, 'w'), indent=1)
    return path


def rerun(path, repo):
    rec = json.load(open(path))
    print(json.dumps({k: rec.get(k) for k in ('property', 'obligation', 'function', 'kind', 'failing_input_found')}, indent=1))
    if rec.get('native_driver'):
        spec = (rec['native_driver']['crate'], rec['native_driver']['bin'], [])
        found, outs = run_native(spec, repo)
        print(json.dumps(outs, indent=1))
        return 1 if found else 0
    if rec.get('kani_harness') or rec.get('paired_kani_harness'):
        import krun
        h = rec.get('kani_harness') or rec['paired_kani_harness'].get('harness')
        r = krun.counterexample(h, repo, os.path.join(ROOT, 'out', 'replay-rerun'))
        print(json.dumps(r, indent=1)[:4000])
        return 1 if r.get('failing_input_found') else 0
    print(rec.get('verifier_output'))
    return 0
