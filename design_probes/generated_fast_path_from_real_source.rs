use vstd::prelude::*;
use core::cmp::Ordering;
verus! {
global size_of usize == 8;

pub open spec fn is_pow2(d: usize) -> bool { d > 0 && (d & ((d - 1) as usize)) == 0 }
pub open spec fn aligned(x: usize, d: usize) -> bool { (x & ((d - 1) as usize)) == 0 }

// ---- shims (address abstraction) ----
pub struct Layout { pub size_: usize, pub align_: usize }
impl Layout {
    pub open spec fn valid(&self) -> bool { is_pow2(self.align_) && self.size_ as int + self.align_ as int - 1 <= isize::MAX as int }
    pub fn size(&self) -> (r: usize) ensures r == self.size_ { self.size_ }
    pub fn align(&self) -> (r: usize) ensures r == self.align_ { self.align_ }
}
pub struct ChunkFooter { pub data: usize, pub layout: Layout, pub prev: usize, pub ptr: usize, pub allocated_bytes: usize }
pub struct Bump<const MIN_ALIGN: usize> { pub current_chunk_footer: usize, pub cur: ChunkFooter, pub allocation_limit: Option<usize> }

pub trait PtrShim: Sized { fn as_ptr(self) -> Self; fn get(self) -> Self; fn is_null(self) -> bool; }
impl PtrShim for usize {
    fn as_ptr(self) -> (r: usize) ensures r == self { self }
    fn get(self) -> (r: usize) ensures r == self { self }
    fn is_null(self) -> (r: bool) ensures r == (self == 0) { self == 0 }
}
pub fn rt_debug_assert(b: bool) requires b {}
pub const EMPTY_ADDR: usize = 4096;


pub const fn round_up_to(n: usize, divisor: usize) -> (r: Option<usize>)
    requires is_pow2(divisor),
    ensures match r { Some(x) => x >= n && x - n < divisor && aligned(x, divisor), None => n + divisor - 1 > usize::MAX }
{
    match n.checked_add(divisor - 1) {
        Some(x) => {
            let r = x & !(divisor - 1);
            assert(r <= x && x - r < divisor && (r & ((divisor - 1) as usize)) == 0) by (bit_vector)
                requires divisor > 0 && (divisor & ((divisor - 1) as usize)) == 0, r == x & !((divisor - 1) as usize);
            Some(r)
        }
        None => None,
    }
}
pub fn round_up_to_unchecked(n: usize, divisor: usize) -> (r: usize)
    requires is_pow2(divisor), n + divisor - 1 <= usize::MAX,
    ensures r >= n, r - n < divisor, aligned(r, divisor)
{
    match round_up_to(n, divisor) { Some(x) => x, None => { assert(false); 0 } }
}
pub fn round_mut_ptr_down_to(ptr: usize, divisor: usize) -> (r: usize)
    requires is_pow2(divisor),
    ensures r <= ptr, ptr - r < divisor, aligned(r, divisor)
{
    let m = ptr as usize & (divisor - 1);
    assert(m <= ptr && m < divisor && (((ptr - m) as usize) & ((divisor - 1) as usize)) == 0) by (bit_vector)
        requires divisor > 0 && (divisor & ((divisor - 1) as usize)) == 0, m == ptr & ((divisor - 1) as usize);
    ptr.wrapping_sub(m)
}
pub fn is_pointer_aligned_to(pointer: usize, align: usize) -> (r: bool)
    requires is_pow2(align), ensures r == aligned(pointer, align)
{
    let pointer = pointer as usize;
    let pointer_aligned = pointer & !(align - 1);
    assert((pointer == pointer_aligned) == ((pointer & ((align - 1) as usize)) == 0)) by (bit_vector)
        requires pointer_aligned == pointer & !((align - 1) as usize);
    pointer == pointer_aligned
}

pub broadcast proof fn lemma_sub_aligned(p: usize, s: usize, d: usize)
    requires is_pow2(d), aligned(p, d), aligned(s, d), s <= p,
    ensures #[trigger] aligned((p - s) as usize, d)
{
    assert((((p - s) as usize) & ((d - 1) as usize)) == 0) by (bit_vector)
        requires d > 0 && (d & ((d - 1) as usize)) == 0, (p & ((d - 1) as usize)) == 0, (s & ((d - 1) as usize)) == 0, s <= p;
}
pub broadcast proof fn lemma_aligned_weaken(p: usize, big: usize, small: usize)
    requires is_pow2(big), is_pow2(small), small <= big, #[trigger] aligned(p, big),
    ensures #[trigger] aligned(p, small)
{
    assert((p & ((small - 1) as usize)) == 0) by (bit_vector)
        requires big > 0 && (big & ((big - 1) as usize)) == 0, small > 0 && (small & ((small - 1) as usize)) == 0, small <= big, (p & ((big - 1) as usize)) == 0;
}

impl<const MIN_ALIGN: usize> Bump<MIN_ALIGN> {
    pub open spec fn inv(&self) -> bool {
        &&& is_pow2(MIN_ALIGN) && MIN_ALIGN <= 16
        &&& self.cur.data <= self.cur.ptr <= self.current_chunk_footer
        &&& aligned(self.cur.ptr, MIN_ALIGN)
        &&& self.cur.data > 0
    }
    fn write_cur_ptr(&mut self, v: usize)
        requires old(self).current_chunk_footer != EMPTY_ADDR,
        ensures final(self).cur.ptr == v, final(self).cur.data == old(self).cur.data, final(self).current_chunk_footer == old(self).current_chunk_footer,
            final(self).allocation_limit == old(self).allocation_limit
    { self.cur.ptr = v; }
    fn try_alloc_layout_fast(&mut self, layout: Layout) -> (res: Option<usize>)
        requires old(self).inv(), layout.valid(),
        ensures
            final(self).inv(),
            final(self).current_chunk_footer == old(self).current_chunk_footer,
            final(self).cur.data == old(self).cur.data,
            res.is_some() ==> aligned(res.unwrap(), layout.align_),
            res.is_some() ==> aligned(res.unwrap(), MIN_ALIGN),
            res.is_some() ==> old(self).cur.data <= res.unwrap(),
            res.is_some() ==> res.unwrap() + layout.size_ <= old(self).cur.ptr,
            res.is_some() ==> final(self).cur.ptr == res.unwrap(),
            res.is_none() ==> final(self).cur.ptr == old(self).cur.ptr,
{
        broadcast use lemma_sub_aligned, lemma_aligned_weaken;
        
        
        
        
        {
            let footer_ptr = self.current_chunk_footer;
            
            let ptr = self.cur.ptr;
            let start = self.cur.data;
            rt_debug_assert(start <= ptr);
            rt_debug_assert(ptr <= footer_ptr);
            rt_debug_assert(is_pointer_aligned_to(ptr, MIN_ALIGN));

            
            
            
            let aligned_ptr = match layout.align().cmp(&MIN_ALIGN) {
                Ordering::Less => {
                    
                    
                    
                    let aligned_size = round_up_to(layout.size(), MIN_ALIGN)?;

                    let capacity = (ptr as usize) - (start as usize);
                    if aligned_size > capacity {
                        return None;
                    }

                    ptr.wrapping_sub(aligned_size)
                }
                Ordering::Equal => {
                    
                    
                    
                    
                    let aligned_size = round_up_to_unchecked(layout.size(), layout.align());

                    let capacity = (ptr as usize) - (start as usize);
                    if aligned_size > capacity {
                        return None;
                    }

                    ptr.wrapping_sub(aligned_size)
                }
                Ordering::Greater => {
                    
                    
                    
                    
                    let aligned_size = round_up_to_unchecked(layout.size(), layout.align());

                    let aligned_ptr = round_mut_ptr_down_to(ptr, layout.align());
                    let capacity = (aligned_ptr as usize).wrapping_sub(start as usize);
                    if aligned_ptr < start || aligned_size > capacity {
                        return None;
                    }

                    aligned_ptr.wrapping_sub(aligned_size)
                }
            };

            rt_debug_assert(is_pointer_aligned_to(aligned_ptr, layout.align()));
            rt_debug_assert(is_pointer_aligned_to(aligned_ptr, MIN_ALIGN));
            rt_debug_assert(start <= aligned_ptr && aligned_ptr <= ptr);

            rt_debug_assert(!aligned_ptr.is_null());
            let aligned_ptr = aligned_ptr;

            self.write_cur_ptr(aligned_ptr);
            Some(aligned_ptr)
        }
    }

}
} // verus!
fn main() {}
