use vstd::prelude::*;
use core::cmp::Ordering;
verus! {
global size_of usize == 8;

pub open spec fn is_pow2(d: usize) -> bool { d > 0 && (d & ((d - 1) as usize)) == 0 }
pub open spec fn aligned(x: usize, d: usize) -> bool { (x & ((d - 1) as usize)) == 0 }

// ---- shims (address abstraction) ----
pub struct Layout { pub size_: usize, pub align_: usize }
impl Layout {
    pub open spec fn valid(&self) -> bool { is_pow2(self.align_) && self.size_ as int + self.align_ as int - 1 <= isize::MAX as int }
    pub fn size(&self) -> (r: usize) ensures r == self.size_ { self.size_ }
    pub fn align(&self) -> (r: usize) ensures r == self.align_ { self.align_ }
}
pub struct ChunkFooter { pub data: usize, pub layout: Layout, pub prev: usize, pub ptr: usize, pub allocated_bytes: usize }
pub struct Bump<const MIN_ALIGN: usize> { pub footer_addr: usize, pub footer: ChunkFooter, pub allocation_limit: Option<usize> }

pub trait PtrShim: Sized { fn as_ptr(self) -> Self; fn get(self) -> Self; }
impl PtrShim for usize {
    fn as_ptr(self) -> (r: usize) ensures r == self { self }
    fn get(self) -> (r: usize) ensures r == self { self }
}

pub const fn round_up_to(n: usize, divisor: usize) -> (r: Option<usize>)
    requires is_pow2(divisor),
    ensures match r { Some(x) => x >= n && x - n < divisor && aligned(x, divisor) && (forall|k: usize| #[trigger] aligned(k, divisor) && k >= n ==> k >= x), None => n + divisor - 1 > usize::MAX }
{
    match n.checked_add(divisor - 1) {
        Some(x) => {
            let r = x & !(divisor - 1);
            assert(r <= x && x - r < divisor && (r & ((divisor - 1) as usize)) == 0) by (bit_vector)
                requires divisor > 0 && (divisor & ((divisor - 1) as usize)) == 0, r == x & !((divisor - 1) as usize);
            assert forall|k: usize| #[trigger] aligned(k, divisor) && k >= n implies k >= r by {
                assert((k & ((divisor - 1) as usize)) == 0 && k >= n && x == n + (divisor - 1) ==> k >= (x & !((divisor - 1) as usize))) by (bit_vector)
                    requires divisor > 0 && (divisor & ((divisor - 1) as usize)) == 0, n <= 0xffff_ffff_ffff_ffffusize - (divisor - 1);
            }
            Some(r)
        }
        None => None,
    }
}
pub fn round_up_to_unchecked(n: usize, divisor: usize) -> (r: usize)
    requires is_pow2(divisor), n + divisor - 1 <= usize::MAX,
    ensures r >= n, r - n < divisor, aligned(r, divisor), forall|k: usize| #[trigger] aligned(k, divisor) && k >= n ==> k >= r
{
    match round_up_to(n, divisor) { Some(x) => x, None => { assert(false); 0 } }
}
pub fn round_mut_ptr_down_to(ptr: usize, divisor: usize) -> (r: usize)
    requires is_pow2(divisor),
    ensures r <= ptr, ptr - r < divisor, aligned(r, divisor)
{
    let m = ptr as usize & (divisor - 1);
    assert(m <= ptr && m < divisor && (((ptr - m) as usize) & ((divisor - 1) as usize)) == 0) by (bit_vector)
        requires divisor > 0 && (divisor & ((divisor - 1) as usize)) == 0, m == ptr & ((divisor - 1) as usize);
    ptr.wrapping_sub(m)
}
pub fn is_pointer_aligned_to(pointer: usize, align: usize) -> (r: bool)
    requires is_pow2(align), ensures r == aligned(pointer, align)
{
    let pointer = pointer as usize;
    let pointer_aligned = pointer & !(align - 1);
    assert((pointer == pointer_aligned) == ((pointer & ((align - 1) as usize)) == 0)) by (bit_vector)
        requires pointer_aligned == pointer & !((align - 1) as usize);
    pointer == pointer_aligned
}

pub broadcast proof fn lemma_sub_aligned(p: usize, s: usize, d: usize)
    requires is_pow2(d), aligned(p, d), aligned(s, d), s <= p,
    ensures #[trigger] aligned((p - s) as usize, d)
{
    assert((((p - s) as usize) & ((d - 1) as usize)) == 0) by (bit_vector)
        requires d > 0 && (d & ((d - 1) as usize)) == 0, (p & ((d - 1) as usize)) == 0, (s & ((d - 1) as usize)) == 0, s <= p;
}
pub broadcast proof fn lemma_aligned_weaken(p: usize, big: usize, small: usize)
    requires is_pow2(big), is_pow2(small), small <= big, #[trigger] aligned(p, big),
    ensures #[trigger] aligned(p, small)
{
    assert((p & ((small - 1) as usize)) == 0) by (bit_vector)
        requires big > 0 && (big & ((big - 1) as usize)) == 0, small > 0 && (small & ((small - 1) as usize)) == 0, small <= big, (p & ((big - 1) as usize)) == 0;
}

impl<const MIN_ALIGN: usize> Bump<MIN_ALIGN> {
    pub open spec fn inv(&self) -> bool {
        &&& is_pow2(MIN_ALIGN) && MIN_ALIGN <= 16
        &&& self.footer.data <= self.footer.ptr <= self.footer_addr
        &&& aligned(self.footer.ptr, MIN_ALIGN)
        &&& self.footer_addr + 48 <= usize::MAX
    }

    fn try_alloc_layout_fast(&mut self, layout: Layout) -> (res: Option<usize>)
        requires old(self).inv(), layout.valid(),
        ensures
            final(self).inv(),
            final(self).footer_addr == old(self).footer_addr,
            final(self).footer.data == old(self).footer.data,
            match res {
                Some(p) => {
                    &&& aligned(p, layout.align_) && aligned(p, MIN_ALIGN)
                    &&& old(self).footer.data <= p
                    &&& p + layout.size_ <= old(self).footer.ptr
                    &&& final(self).footer.ptr == p
                },
                None => final(self).footer.ptr == old(self).footer.ptr,
            }
    {
        {
            broadcast use lemma_sub_aligned, lemma_aligned_weaken;
            let footer_ptr = self.footer_addr;
            let ptr = self.footer.ptr.get().as_ptr();
            let start = self.footer.data.as_ptr();
            assert(start <= ptr);
            assert(ptr <= footer_ptr);
            let aligned_ptr = match layout.align().cmp(&MIN_ALIGN) {
                Ordering::Less => {
                    let aligned_size = round_up_to(layout.size(), MIN_ALIGN)?;
                    let capacity = (ptr as usize) - (start as usize);
                    if aligned_size > capacity {
                        return None;
                    }
                    ptr.wrapping_sub(aligned_size)
                }
                Ordering::Equal => {
                    let aligned_size = round_up_to_unchecked(layout.size(), layout.align());
                    let capacity = (ptr as usize) - (start as usize);
                    if aligned_size > capacity {
                        return None;
                    }
                    ptr.wrapping_sub(aligned_size)
                }
                Ordering::Greater => {
                    let aligned_size = round_up_to_unchecked(layout.size(), layout.align());
                    let aligned_ptr = round_mut_ptr_down_to(ptr, layout.align());
                    let capacity = (aligned_ptr as usize).wrapping_sub(start as usize);
                    if aligned_ptr < start || aligned_size > capacity {
                        return None;
                    }
                    aligned_ptr.wrapping_sub(aligned_size)
                }
            };
            self.footer.ptr = aligned_ptr;
            Some(aligned_ptr)
        }
    }
}


pub fn round_down_to(n: usize, divisor: usize) -> (r: usize)
    requires is_pow2(divisor),
    ensures r <= n, n - r < divisor, aligned(r, divisor),
        forall|k: usize| #[trigger] aligned(k, divisor) && k <= n ==> k <= r,
{
    let r = n & !(divisor - 1);
    assert(r <= n && n - r < divisor && (r & ((divisor - 1) as usize)) == 0) by (bit_vector)
        requires divisor > 0 && (divisor & ((divisor - 1) as usize)) == 0, r == n & !((divisor - 1) as usize);
    assert forall|k: usize| #[trigger] aligned(k, divisor) && k <= n implies k <= r by {
        assert((k & ((divisor - 1) as usize)) == 0 && k <= n ==> k <= (n & !((divisor - 1) as usize))) by (bit_vector)
            requires divisor > 0 && (divisor & ((divisor - 1) as usize)) == 0;
    }
    r
}

pub fn round_mut_ptr_up_to_unchecked(ptr: usize, divisor: usize) -> (r: usize)
    requires is_pow2(divisor), ptr + divisor - 1 <= usize::MAX,
    ensures r >= ptr, r - ptr < divisor, aligned(r, divisor), forall|k: usize| #[trigger] aligned(k, divisor) && k >= ptr ==> k >= r
{
    let aligned = round_up_to_unchecked(ptr as usize, divisor);
    let delta = aligned - (ptr as usize);
    ptr + delta
}

pub broadcast proof fn lemma_add_aligned(p: usize, s: usize, d: usize)
    requires is_pow2(d), aligned(p, d), aligned(s, d), p + s <= usize::MAX,
    ensures #[trigger] aligned((p + s) as usize, d)
{
    assert((((p + s) as usize) & ((d - 1) as usize)) == 0) by (bit_vector)
        requires d > 0 && (d & ((d - 1) as usize)) == 0, (p & ((d - 1) as usize)) == 0, (s & ((d - 1) as usize)) == 0, p + s <= 0xffff_ffff_ffff_ffffusize;
}
pub fn umax(a: usize, b: usize) -> (r: usize) ensures r >= a, r >= b, r == a || r == b { if a >= b { a } else { b } }

impl<const MIN_ALIGN: usize> Bump<MIN_ALIGN> {
    fn is_last_allocation(&self, ptr: usize) -> (r: bool) ensures r == (self.footer.ptr == ptr) { self.footer.ptr.get() == ptr }

    // block = (ptr, layout.size) is live: lies in [footer.ptr, footer_addr), its reservation ends at `next` (start of next live block or footer)
    fn dealloc(&mut self, ptr: usize, layout: Layout, Ghost(next): Ghost<usize>)
        requires old(self).inv(), layout.valid(), aligned(ptr, MIN_ALIGN), aligned(next, MIN_ALIGN),
            old(self).footer.ptr <= ptr, ptr + layout.size_ <= next, next <= old(self).footer_addr,
        ensures final(self).inv(),
            final(self).footer_addr == old(self).footer_addr, final(self).footer.data == old(self).footer.data,
            old(self).footer.ptr != ptr ==> final(self).footer.ptr == old(self).footer.ptr,
            old(self).footer.ptr == ptr ==> ptr + layout.size_ <= final(self).footer.ptr <= next,
    {
        
        if self.is_last_allocation(ptr) {
            let p = self.footer.ptr.get();
            let p = p + layout.size();
            let p = round_mut_ptr_up_to_unchecked(p, MIN_ALIGN);
            self.footer.ptr = p;
        }
    }

    fn shrink(&mut self, ptr: usize, old_layout: Layout, new_layout: Layout, Ghost(next): Ghost<usize>) -> (res: Result<usize, ()>)
        requires old(self).inv(), old_layout.valid(), new_layout.valid(), new_layout.size_ <= old_layout.size_,
            old_layout.align_ >= new_layout.align_,
            aligned(ptr, MIN_ALIGN), aligned(ptr, old_layout.align_), aligned(next, MIN_ALIGN),
            old(self).footer.ptr <= ptr, ptr + old_layout.size_ <= next, next <= old(self).footer_addr,
        ensures final(self).inv(),
            match res { Ok(p) => {
                &&& aligned(p, new_layout.align_) && aligned(p, MIN_ALIGN)
                &&& ptr <= p && p + new_layout.size_ <= ptr + old_layout.size_
                &&& (p != ptr ==> p >= ptr + new_layout.size_)   // moved => non-overlapping copy
                &&& (old(self).footer.ptr != ptr ==> final(self).footer.ptr == old(self).footer.ptr && p == ptr)
                &&& (old(self).footer.ptr == ptr ==> final(self).footer.ptr == p)
            }, Err(_) => false }
    {
        broadcast use lemma_add_aligned, lemma_aligned_weaken;
        let old_size = old_layout.size();
        let new_size = new_layout.size();
        proof { lemma_max_pow2(new_layout.align_, MIN_ALIGN); }
        let delta = round_down_to(old_size - new_size, umax(new_layout.align(), MIN_ALIGN));
        if self.is_last_allocation(ptr) && delta >= (old_size + 1) / 2 {
            let new_ptr = self.footer.ptr.get() + delta;
            self.footer.ptr = new_ptr;
            return Ok(new_ptr);
        }
        Ok(ptr)
    }
}
proof fn lemma_max_pow2(a: usize, b: usize) requires is_pow2(a), is_pow2(b) ensures is_pow2(if a >= b { a } else { b }) {}

} // verus!
fn main() {}
