import re,sys
src=open('/repo/src/lib.rs').read()
def grab_fn(name):
    m=re.search(r'\n( *)((?:pub(?:\([a-z]+\))? )?(?:const )?(?:unsafe )?fn '+name+r'\b)',src)
    i=m.start(2); j=src.index('{',i); d=0;k=j
    while True:
        c=src[k]
        if c=='{': d+=1
        elif c=='}':
            d-=1
            if d==0: break
        k+=1
    return src[i:j], src[j:k+1]
def strip_comments(b): return re.sub(r'//[^\n]*','',b)
def debug_asserts(b):
    # debug_assert!(cond, "fmt"...)  -> assert(cond);   handle nested parens
    out='';i=0
    while True:
        m=re.search(r'debug_assert(_eq)?!\(',b[i:])
        if not m: out+=b[i:];break
        out+=b[i:i+m.start()]; s=i+m.end(); d=1;k=s;args=[];cur=s;instr=False
        while d>0:
            c=b[k]
            if c=='"' and b[k-1]!='\\': instr=not instr
            if not instr:
                if c in '([{': d+=1
                elif c in ')]}': d-=1
                elif c==',' and d==1: args.append(b[cur:k]);cur=k+1
            k+=1
        args.append(b[cur:k-1])
        args=[a.strip() for a in args if a.strip()]
        if m.group(1): out+='assert('+args[0]+' == '+args[1]+')'
        else: out+='assert('+args[0]+')'
        i=k
    return out
sig,body=grab_fn('try_alloc_layout_fast')
b=strip_comments(body)
b=debug_asserts(b)
# R4 alias resolution
m=re.search(r'let (\w+) = self\.current_chunk_footer\.get\(\);',b); fp=m.group(1)
b=b.replace(m.group(0),'let %s = self.current_chunk_footer;'%fp)
m=re.search(r'let (\w+) = %s\.as_ref\(\);\n'%fp,b); al=m.group(1)
b=b.replace(m.group(0),'')
b=re.sub(r'\b%s\.(\w+)\.set\(([^;]*)\);'%al,r'footer_write!(self.cur.\1 = \2);',b)
b=re.sub(r'\b%s\.'%al,'self.cur.',b)
# R2/R3
b=re.sub(r'\.get\(\)','',b); b=re.sub(r'\.as_ptr\(\)','',b); b=re.sub(r'\.cast::<u8>\(\)','',b)
b=re.sub(r'NonNull::new_unchecked\((\w+)\)',r'\1',b)
b=re.sub(r'\bunsafe \{','{',b)
b=b.replace('footer_write!(self.cur.ptr = aligned_ptr);','self.write_cur_ptr(aligned_ptr);')
sig=sig.replace('&self','&mut self').replace('NonNull<u8>','usize')
print(sig.strip()); print(b)
