use vstd::prelude::*;
verus! {
global size_of usize == 8;
pub open spec fn is_pow2(d: usize) -> bool { d > 0 && (d & ((d - 1) as usize)) == 0 }
pub open spec fn aligned(x: usize, d: usize) -> bool { (x & ((d - 1) as usize)) == 0 }
proof fn lemma_pow2_enum(d: usize)
    requires is_pow2(d)
    ensures d == 0x1usize || d == 0x2usize || d == 0x4usize || d == 0x8usize || d == 0x10usize || d == 0x20usize || d == 0x40usize || d == 0x80usize || d == 0x100usize || d == 0x200usize || d == 0x400usize || d == 0x800usize || d == 0x1000usize || d == 0x2000usize || d == 0x4000usize || d == 0x8000usize || d == 0x10000usize || d == 0x20000usize || d == 0x40000usize || d == 0x80000usize || d == 0x100000usize || d == 0x200000usize || d == 0x400000usize || d == 0x800000usize || d == 0x1000000usize || d == 0x2000000usize || d == 0x4000000usize || d == 0x8000000usize || d == 0x10000000usize || d == 0x20000000usize || d == 0x40000000usize || d == 0x80000000usize || d == 0x100000000usize || d == 0x200000000usize || d == 0x400000000usize || d == 0x800000000usize || d == 0x1000000000usize || d == 0x2000000000usize || d == 0x4000000000usize || d == 0x8000000000usize || d == 0x10000000000usize || d == 0x20000000000usize || d == 0x40000000000usize || d == 0x80000000000usize || d == 0x100000000000usize || d == 0x200000000000usize || d == 0x400000000000usize || d == 0x800000000000usize || d == 0x1000000000000usize || d == 0x2000000000000usize || d == 0x4000000000000usize || d == 0x8000000000000usize || d == 0x10000000000000usize || d == 0x20000000000000usize || d == 0x40000000000000usize || d == 0x80000000000000usize || d == 0x100000000000000usize || d == 0x200000000000000usize || d == 0x400000000000000usize || d == 0x800000000000000usize || d == 0x1000000000000000usize || d == 0x2000000000000000usize || d == 0x4000000000000000usize || d == 0x8000000000000000usize
{
    assert(d > 0 && (d & ((d - 1) as usize)) == 0 ==> (d == 0x1usize || d == 0x2usize || d == 0x4usize || d == 0x8usize || d == 0x10usize || d == 0x20usize || d == 0x40usize || d == 0x80usize || d == 0x100usize || d == 0x200usize || d == 0x400usize || d == 0x800usize || d == 0x1000usize || d == 0x2000usize || d == 0x4000usize || d == 0x8000usize || d == 0x10000usize || d == 0x20000usize || d == 0x40000usize || d == 0x80000usize || d == 0x100000usize || d == 0x200000usize || d == 0x400000usize || d == 0x800000usize || d == 0x1000000usize || d == 0x2000000usize || d == 0x4000000usize || d == 0x8000000usize || d == 0x10000000usize || d == 0x20000000usize || d == 0x40000000usize || d == 0x80000000usize || d == 0x100000000usize || d == 0x200000000usize || d == 0x400000000usize || d == 0x800000000usize || d == 0x1000000000usize || d == 0x2000000000usize || d == 0x4000000000usize || d == 0x8000000000usize || d == 0x10000000000usize || d == 0x20000000000usize || d == 0x40000000000usize || d == 0x80000000000usize || d == 0x100000000000usize || d == 0x200000000000usize || d == 0x400000000000usize || d == 0x800000000000usize || d == 0x1000000000000usize || d == 0x2000000000000usize || d == 0x4000000000000usize || d == 0x8000000000000usize || d == 0x10000000000000usize || d == 0x20000000000000usize || d == 0x40000000000000usize || d == 0x80000000000000usize || d == 0x100000000000000usize || d == 0x200000000000000usize || d == 0x400000000000000usize || d == 0x800000000000000usize || d == 0x1000000000000000usize || d == 0x2000000000000000usize || d == 0x4000000000000000usize || d == 0x8000000000000000usize)) by (bit_vector);
}

pub broadcast proof fn lemma_aligned_iff_mod(x: usize, d: usize)
    requires is_pow2(d)
    ensures aligned(x, d) <==> #[trigger] (x % d) == 0
{
    lemma_pow2_enum(d);
    if d == 0x1usize { assert((x & 0x0usize) == 0 <==> x % 0x1usize == 0) by (bit_vector); }
    if d == 0x2usize { assert((x & 0x1usize) == 0 <==> x % 0x2usize == 0) by (bit_vector); }
    if d == 0x4usize { assert((x & 0x3usize) == 0 <==> x % 0x4usize == 0) by (bit_vector); }
    if d == 0x8usize { assert((x & 0x7usize) == 0 <==> x % 0x8usize == 0) by (bit_vector); }
    if d == 0x10usize { assert((x & 0xfusize) == 0 <==> x % 0x10usize == 0) by (bit_vector); }
    if d == 0x20usize { assert((x & 0x1fusize) == 0 <==> x % 0x20usize == 0) by (bit_vector); }
    if d == 0x40usize { assert((x & 0x3fusize) == 0 <==> x % 0x40usize == 0) by (bit_vector); }
    if d == 0x80usize { assert((x & 0x7fusize) == 0 <==> x % 0x80usize == 0) by (bit_vector); }
    if d == 0x100usize { assert((x & 0xffusize) == 0 <==> x % 0x100usize == 0) by (bit_vector); }
    if d == 0x200usize { assert((x & 0x1ffusize) == 0 <==> x % 0x200usize == 0) by (bit_vector); }
    if d == 0x400usize { assert((x & 0x3ffusize) == 0 <==> x % 0x400usize == 0) by (bit_vector); }
    if d == 0x800usize { assert((x & 0x7ffusize) == 0 <==> x % 0x800usize == 0) by (bit_vector); }
    if d == 0x1000usize { assert((x & 0xfffusize) == 0 <==> x % 0x1000usize == 0) by (bit_vector); }
    if d == 0x2000usize { assert((x & 0x1fffusize) == 0 <==> x % 0x2000usize == 0) by (bit_vector); }
    if d == 0x4000usize { assert((x & 0x3fffusize) == 0 <==> x % 0x4000usize == 0) by (bit_vector); }
    if d == 0x8000usize { assert((x & 0x7fffusize) == 0 <==> x % 0x8000usize == 0) by (bit_vector); }
    if d == 0x10000usize { assert((x & 0xffffusize) == 0 <==> x % 0x10000usize == 0) by (bit_vector); }
    if d == 0x20000usize { assert((x & 0x1ffffusize) == 0 <==> x % 0x20000usize == 0) by (bit_vector); }
    if d == 0x40000usize { assert((x & 0x3ffffusize) == 0 <==> x % 0x40000usize == 0) by (bit_vector); }
    if d == 0x80000usize { assert((x & 0x7ffffusize) == 0 <==> x % 0x80000usize == 0) by (bit_vector); }
    if d == 0x100000usize { assert((x & 0xfffffusize) == 0 <==> x % 0x100000usize == 0) by (bit_vector); }
    if d == 0x200000usize { assert((x & 0x1fffffusize) == 0 <==> x % 0x200000usize == 0) by (bit_vector); }
    if d == 0x400000usize { assert((x & 0x3fffffusize) == 0 <==> x % 0x400000usize == 0) by (bit_vector); }
    if d == 0x800000usize { assert((x & 0x7fffffusize) == 0 <==> x % 0x800000usize == 0) by (bit_vector); }
    if d == 0x1000000usize { assert((x & 0xffffffusize) == 0 <==> x % 0x1000000usize == 0) by (bit_vector); }
    if d == 0x2000000usize { assert((x & 0x1ffffffusize) == 0 <==> x % 0x2000000usize == 0) by (bit_vector); }
    if d == 0x4000000usize { assert((x & 0x3ffffffusize) == 0 <==> x % 0x4000000usize == 0) by (bit_vector); }
    if d == 0x8000000usize { assert((x & 0x7ffffffusize) == 0 <==> x % 0x8000000usize == 0) by (bit_vector); }
    if d == 0x10000000usize { assert((x & 0xfffffffusize) == 0 <==> x % 0x10000000usize == 0) by (bit_vector); }
    if d == 0x20000000usize { assert((x & 0x1fffffffusize) == 0 <==> x % 0x20000000usize == 0) by (bit_vector); }
    if d == 0x40000000usize { assert((x & 0x3fffffffusize) == 0 <==> x % 0x40000000usize == 0) by (bit_vector); }
    if d == 0x80000000usize { assert((x & 0x7fffffffusize) == 0 <==> x % 0x80000000usize == 0) by (bit_vector); }
    if d == 0x100000000usize { assert((x & 0xffffffffusize) == 0 <==> x % 0x100000000usize == 0) by (bit_vector); }
    if d == 0x200000000usize { assert((x & 0x1ffffffffusize) == 0 <==> x % 0x200000000usize == 0) by (bit_vector); }
    if d == 0x400000000usize { assert((x & 0x3ffffffffusize) == 0 <==> x % 0x400000000usize == 0) by (bit_vector); }
    if d == 0x800000000usize { assert((x & 0x7ffffffffusize) == 0 <==> x % 0x800000000usize == 0) by (bit_vector); }
    if d == 0x1000000000usize { assert((x & 0xfffffffffusize) == 0 <==> x % 0x1000000000usize == 0) by (bit_vector); }
    if d == 0x2000000000usize { assert((x & 0x1fffffffffusize) == 0 <==> x % 0x2000000000usize == 0) by (bit_vector); }
    if d == 0x4000000000usize { assert((x & 0x3fffffffffusize) == 0 <==> x % 0x4000000000usize == 0) by (bit_vector); }
    if d == 0x8000000000usize { assert((x & 0x7fffffffffusize) == 0 <==> x % 0x8000000000usize == 0) by (bit_vector); }
    if d == 0x10000000000usize { assert((x & 0xffffffffffusize) == 0 <==> x % 0x10000000000usize == 0) by (bit_vector); }
    if d == 0x20000000000usize { assert((x & 0x1ffffffffffusize) == 0 <==> x % 0x20000000000usize == 0) by (bit_vector); }
    if d == 0x40000000000usize { assert((x & 0x3ffffffffffusize) == 0 <==> x % 0x40000000000usize == 0) by (bit_vector); }
    if d == 0x80000000000usize { assert((x & 0x7ffffffffffusize) == 0 <==> x % 0x80000000000usize == 0) by (bit_vector); }
    if d == 0x100000000000usize { assert((x & 0xfffffffffffusize) == 0 <==> x % 0x100000000000usize == 0) by (bit_vector); }
    if d == 0x200000000000usize { assert((x & 0x1fffffffffffusize) == 0 <==> x % 0x200000000000usize == 0) by (bit_vector); }
    if d == 0x400000000000usize { assert((x & 0x3fffffffffffusize) == 0 <==> x % 0x400000000000usize == 0) by (bit_vector); }
    if d == 0x800000000000usize { assert((x & 0x7fffffffffffusize) == 0 <==> x % 0x800000000000usize == 0) by (bit_vector); }
    if d == 0x1000000000000usize { assert((x & 0xffffffffffffusize) == 0 <==> x % 0x1000000000000usize == 0) by (bit_vector); }
    if d == 0x2000000000000usize { assert((x & 0x1ffffffffffffusize) == 0 <==> x % 0x2000000000000usize == 0) by (bit_vector); }
    if d == 0x4000000000000usize { assert((x & 0x3ffffffffffffusize) == 0 <==> x % 0x4000000000000usize == 0) by (bit_vector); }
    if d == 0x8000000000000usize { assert((x & 0x7ffffffffffffusize) == 0 <==> x % 0x8000000000000usize == 0) by (bit_vector); }
    if d == 0x10000000000000usize { assert((x & 0xfffffffffffffusize) == 0 <==> x % 0x10000000000000usize == 0) by (bit_vector); }
    if d == 0x20000000000000usize { assert((x & 0x1fffffffffffffusize) == 0 <==> x % 0x20000000000000usize == 0) by (bit_vector); }
    if d == 0x40000000000000usize { assert((x & 0x3fffffffffffffusize) == 0 <==> x % 0x40000000000000usize == 0) by (bit_vector); }
    if d == 0x80000000000000usize { assert((x & 0x7fffffffffffffusize) == 0 <==> x % 0x80000000000000usize == 0) by (bit_vector); }
    if d == 0x100000000000000usize { assert((x & 0xffffffffffffffusize) == 0 <==> x % 0x100000000000000usize == 0) by (bit_vector); }
    if d == 0x200000000000000usize { assert((x & 0x1ffffffffffffffusize) == 0 <==> x % 0x200000000000000usize == 0) by (bit_vector); }
    if d == 0x400000000000000usize { assert((x & 0x3ffffffffffffffusize) == 0 <==> x % 0x400000000000000usize == 0) by (bit_vector); }
    if d == 0x800000000000000usize { assert((x & 0x7ffffffffffffffusize) == 0 <==> x % 0x800000000000000usize == 0) by (bit_vector); }
    if d == 0x1000000000000000usize { assert((x & 0xfffffffffffffffusize) == 0 <==> x % 0x1000000000000000usize == 0) by (bit_vector); }
    if d == 0x2000000000000000usize { assert((x & 0x1fffffffffffffffusize) == 0 <==> x % 0x2000000000000000usize == 0) by (bit_vector); }
    if d == 0x4000000000000000usize { assert((x & 0x3fffffffffffffffusize) == 0 <==> x % 0x4000000000000000usize == 0) by (bit_vector); }
    if d == 0x8000000000000000usize { assert((x & 0x7fffffffffffffffusize) == 0 <==> x % 0x8000000000000000usize == 0) by (bit_vector); }
}

#[derive(Clone, Copy, PartialEq, Eq)]
pub struct Layout { pub size_: usize, pub align_: usize }
impl Layout {
    pub open spec fn valid(&self) -> bool { is_pow2(self.align_) && self.size_ as int + self.align_ as int - 1 <= isize::MAX as int }
    pub fn size(&self) -> (r: usize) ensures r == self.size_ { self.size_ }
    pub fn align(&self) -> (r: usize) ensures r == self.align_ { self.align_ }
}
pub struct AllocErr;
#[verifier::external_body]
pub fn layout_from_size_align(size: usize, align: usize) -> (r: Result<Layout, AllocErr>)
    ensures match r { Ok(l) => l.valid() && l.size_ == size && l.align_ == align, Err(_) => !(is_pow2(align) && size as int + align as int - 1 <= isize::MAX as int) }
{
    if align > 0 && (align & (align - 1)) == 0 && size <= (isize::MAX as usize) - (align - 1) { Ok(Layout { size_: size, align_: align }) } else { Err(AllocErr) }
}
pub const CHUNK_ALIGN: usize = 16;
pub const FOOTER_SIZE: usize = 48;
pub const EMPTY_ADDR: usize = 4096;
#[derive(Clone, Copy)]
pub struct NewChunkMemoryDetails { pub new_size_without_footer: usize, pub align: usize, pub size: usize }
#[derive(Clone, Copy)]
pub struct ChunkFooter { pub data: usize, pub layout: Layout, pub prev: usize, pub ptr: usize, pub allocated_bytes: usize }

// global allocator, assumed contract; alloc_event is uninterpreted: links footer fields to the alloc call
pub uninterp spec fn alloc_event(l: Layout, p: usize) -> bool;
#[verifier::external_body]
pub fn alloc(layout: Layout) -> (p: usize)
    requires layout.valid(), layout.size_ > 0,
    ensures p != 0 ==> (alloc_event(layout, p) && aligned(p, layout.align_) && p + layout.size_ <= usize::MAX && p != EMPTY_ADDR)
{ unimplemented!() }
pub fn nonnull_new(p: usize) -> (r: Option<usize>) ensures r == (if p == 0 { None::<usize> } else { Some(p) }) { if p == 0 { None } else { Some(p) } }
pub fn rt_debug_assert(b: bool) requires b {}
pub trait PtrShim: Sized { fn as_ptr(self) -> Self; }
pub fn ptr_add(p: usize, n: usize) -> (r: usize) requires p + n <= usize::MAX ensures r == p + n { p + n }
impl PtrShim for usize {
    fn as_ptr(self) -> (r: usize) ensures r == self { self }
}
pub fn round_mut_ptr_down_to(ptr: usize, divisor: usize) -> (r: usize)
    requires is_pow2(divisor),
    ensures r <= ptr, ptr - r < divisor, aligned(r, divisor), aligned(ptr, divisor) ==> r == ptr
{
    let m = ptr as usize & (divisor - 1);
    assert(m <= ptr && m < divisor && (((ptr - m) as usize) & ((divisor - 1) as usize)) == 0 && ((ptr & ((divisor - 1) as usize)) == 0 ==> m == 0)) by (bit_vector)
        requires divisor > 0 && (divisor & ((divisor - 1) as usize)) == 0, m == ptr & ((divisor - 1) as usize);
    ptr.wrapping_sub(m)
}
pub broadcast proof fn lemma_add_aligned(p: usize, s: usize, d: usize)
    requires is_pow2(d), aligned(p, d), aligned(s, d), p + s <= usize::MAX,
    ensures #[trigger] aligned((p + s) as usize, d)
{
    assert((((p + s) as usize) & ((d - 1) as usize)) == 0) by (bit_vector)
        requires d > 0 && (d & ((d - 1) as usize)) == 0, (p & ((d - 1) as usize)) == 0, (s & ((d - 1) as usize)) == 0, p + s <= 0xffff_ffff_ffff_ffffusize;
}
pub broadcast proof fn lemma_aligned_weaken(p: usize, big: usize, small: usize)
    requires is_pow2(big), is_pow2(small), small <= big, #[trigger] aligned(p, big),
    ensures #[trigger] aligned(p, small)
{
    assert((p & ((small - 1) as usize)) == 0) by (bit_vector)
        requires big > 0 && (big & ((big - 1) as usize)) == 0, small > 0 && (small & ((small - 1) as usize)) == 0, small <= big, (p & ((big - 1) as usize)) == 0;
}
proof fn lemma_16() ensures is_pow2(16) { assert(16usize & 15usize == 0) by (bit_vector); }

// ---- real body of new_chunk (R1,R2,R5,R6,R7,R8 applied by hand for this probe) ----
fn new_chunk<const MIN_ALIGN: usize>(
        new_chunk_memory_details: NewChunkMemoryDetails,
        requested_layout: Layout,
        prev: &ChunkFooter,
        prev_addr: usize,
    ) -> (res: Option<(usize, ChunkFooter)>)
    requires is_pow2(MIN_ALIGN), MIN_ALIGN <= 16, requested_layout.valid(),
        is_pow2(new_chunk_memory_details.align), new_chunk_memory_details.align >= 16,
        new_chunk_memory_details.size == new_chunk_memory_details.new_size_without_footer + FOOTER_SIZE,
        aligned(new_chunk_memory_details.new_size_without_footer, 16),
        new_chunk_memory_details.new_size_without_footer >= requested_layout.size_,
        prev.allocated_bytes + new_chunk_memory_details.new_size_without_footer <= usize::MAX,
    ensures
        res.is_some() ==> alloc_event(res.unwrap().1.layout, res.unwrap().1.data),
        res.is_some() ==> res.unwrap().1.layout.size_ == new_chunk_memory_details.size && res.unwrap().1.layout.align_ == new_chunk_memory_details.align,
        res.is_some() ==> res.unwrap().0 == res.unwrap().1.data + new_chunk_memory_details.new_size_without_footer,
        res.is_some() ==> res.unwrap().1.ptr == res.unwrap().0 && aligned(res.unwrap().1.ptr, MIN_ALIGN),
        res.is_some() ==> res.unwrap().1.prev == prev_addr,
        res.is_some() ==> res.unwrap().1.allocated_bytes == prev.allocated_bytes + new_chunk_memory_details.new_size_without_footer,
        res.is_some() ==> res.unwrap().0 + FOOTER_SIZE <= usize::MAX,
{
    proof { lemma_16(); }
    broadcast use lemma_add_aligned, lemma_aligned_weaken, lemma_aligned_iff_mod;
        let NewChunkMemoryDetails {
            new_size_without_footer,
            align,
            size,
        } = new_chunk_memory_details;

        let layout = layout_from_size_align(size, align).ok()?;

        rt_debug_assert(size >= requested_layout.size());

        let data = alloc(layout);
        let data = nonnull_new(data)?;

        let footer_ptr = ptr_add(data.as_ptr(), new_size_without_footer);
        rt_debug_assert((data.as_ptr() as usize) % align == 0);
        rt_debug_assert(footer_ptr as usize % CHUNK_ALIGN == 0);
        let footer_ptr = footer_ptr;

        let ptr = round_mut_ptr_down_to(footer_ptr, MIN_ALIGN);
        rt_debug_assert(ptr as usize % MIN_ALIGN == 0);
        rt_debug_assert(data.as_ptr() < ptr);
        rt_debug_assert((ptr as usize) - (data.as_ptr() as usize) == new_size_without_footer);

        let ptr = ptr;

        let allocated_bytes = prev.allocated_bytes + new_size_without_footer;

        let f = ChunkFooter {
                data,
                layout,
                prev: prev_addr,
                ptr,
                allocated_bytes,
            };
        Some((footer_ptr, f))
}
} // verus!
fn main() {}
