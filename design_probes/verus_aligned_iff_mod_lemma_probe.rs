use vstd::prelude::*;
verus! {
global size_of usize == 8;
pub open spec fn is_pow2(d: usize) -> bool { d > 0 && (d & ((d - 1) as usize)) == 0 }
pub open spec fn aligned(x: usize, d: usize) -> bool { (x & ((d - 1) as usize)) == 0 }

proof fn lemma_pow2_enum(d: usize)
    requires is_pow2(d)
    ensures d == 0x1usize || d == 0x2usize || d == 0x4usize || d == 0x8usize || d == 0x10usize || d == 0x20usize || d == 0x40usize || d == 0x80usize || d == 0x100usize || d == 0x200usize || d == 0x400usize || d == 0x800usize || d == 0x1000usize || d == 0x2000usize || d == 0x4000usize || d == 0x8000usize || d == 0x10000usize || d == 0x20000usize || d == 0x40000usize || d == 0x80000usize || d == 0x100000usize || d == 0x200000usize || d == 0x400000usize || d == 0x800000usize || d == 0x1000000usize || d == 0x2000000usize || d == 0x4000000usize || d == 0x8000000usize || d == 0x10000000usize || d == 0x20000000usize || d == 0x40000000usize || d == 0x80000000usize || d == 0x100000000usize || d == 0x200000000usize || d == 0x400000000usize || d == 0x800000000usize || d == 0x1000000000usize || d == 0x2000000000usize || d == 0x4000000000usize || d == 0x8000000000usize || d == 0x10000000000usize || d == 0x20000000000usize || d == 0x40000000000usize || d == 0x80000000000usize || d == 0x100000000000usize || d == 0x200000000000usize || d == 0x400000000000usize || d == 0x800000000000usize || d == 0x1000000000000usize || d == 0x2000000000000usize || d == 0x4000000000000usize || d == 0x8000000000000usize || d == 0x10000000000000usize || d == 0x20000000000000usize || d == 0x40000000000000usize || d == 0x80000000000000usize || d == 0x100000000000000usize || d == 0x200000000000000usize || d == 0x400000000000000usize || d == 0x800000000000000usize || d == 0x1000000000000000usize || d == 0x2000000000000000usize || d == 0x4000000000000000usize || d == 0x8000000000000000usize
{
    assert(d > 0 && (d & ((d - 1) as usize)) == 0 ==> (d == 0x1usize || d == 0x2usize || d == 0x4usize || d == 0x8usize || d == 0x10usize || d == 0x20usize || d == 0x40usize || d == 0x80usize || d == 0x100usize || d == 0x200usize || d == 0x400usize || d == 0x800usize || d == 0x1000usize || d == 0x2000usize || d == 0x4000usize || d == 0x8000usize || d == 0x10000usize || d == 0x20000usize || d == 0x40000usize || d == 0x80000usize || d == 0x100000usize || d == 0x200000usize || d == 0x400000usize || d == 0x800000usize || d == 0x1000000usize || d == 0x2000000usize || d == 0x4000000usize || d == 0x8000000usize || d == 0x10000000usize || d == 0x20000000usize || d == 0x40000000usize || d == 0x80000000usize || d == 0x100000000usize || d == 0x200000000usize || d == 0x400000000usize || d == 0x800000000usize || d == 0x1000000000usize || d == 0x2000000000usize || d == 0x4000000000usize || d == 0x8000000000usize || d == 0x10000000000usize || d == 0x20000000000usize || d == 0x40000000000usize || d == 0x80000000000usize || d == 0x100000000000usize || d == 0x200000000000usize || d == 0x400000000000usize || d == 0x800000000000usize || d == 0x1000000000000usize || d == 0x2000000000000usize || d == 0x4000000000000usize || d == 0x8000000000000usize || d == 0x10000000000000usize || d == 0x20000000000000usize || d == 0x40000000000000usize || d == 0x80000000000000usize || d == 0x100000000000000usize || d == 0x200000000000000usize || d == 0x400000000000000usize || d == 0x800000000000000usize || d == 0x1000000000000000usize || d == 0x2000000000000000usize || d == 0x4000000000000000usize || d == 0x8000000000000000usize)) by (bit_vector);
}

pub proof fn lemma_aligned_iff_mod(x: usize, d: usize)
    requires is_pow2(d)
    ensures aligned(x, d) <==> x % d == 0
{
    lemma_pow2_enum(d);
    if d == 0x1usize { assert((x & 0x0usize) == 0 <==> x % 0x1usize == 0) by (bit_vector); }
    if d == 0x2usize { assert((x & 0x1usize) == 0 <==> x % 0x2usize == 0) by (bit_vector); }
    if d == 0x4usize { assert((x & 0x3usize) == 0 <==> x % 0x4usize == 0) by (bit_vector); }
    if d == 0x8usize { assert((x & 0x7usize) == 0 <==> x % 0x8usize == 0) by (bit_vector); }
    if d == 0x10usize { assert((x & 0xfusize) == 0 <==> x % 0x10usize == 0) by (bit_vector); }
    if d == 0x20usize { assert((x & 0x1fusize) == 0 <==> x % 0x20usize == 0) by (bit_vector); }
    if d == 0x40usize { assert((x & 0x3fusize) == 0 <==> x % 0x40usize == 0) by (bit_vector); }
    if d == 0x80usize { assert((x & 0x7fusize) == 0 <==> x % 0x80usize == 0) by (bit_vector); }
    if d == 0x100usize { assert((x & 0xffusize) == 0 <==> x % 0x100usize == 0) by (bit_vector); }
    if d == 0x200usize { assert((x & 0x1ffusize) == 0 <==> x % 0x200usize == 0) by (bit_vector); }
    if d == 0x400usize { assert((x & 0x3ffusize) == 0 <==> x % 0x400usize == 0) by (bit_vector); }
    if d == 0x800usize { assert((x & 0x7ffusize) == 0 <==> x % 0x800usize == 0) by (bit_vector); }
    if d == 0x1000usize { assert((x & 0xfffusize) == 0 <==> x % 0x1000usize == 0) by (bit_vector); }
    if d == 0x2000usize { assert((x & 0x1fffusize) == 0 <==> x % 0x2000usize == 0) by (bit_vector); }
    if d == 0x4000usize { assert((x & 0x3fffusize) == 0 <==> x % 0x4000usize == 0) by (bit_vector); }
    if d == 0x8000usize { assert((x & 0x7fffusize) == 0 <==> x % 0x8000usize == 0) by (bit_vector); }
    if d == 0x10000usize { assert((x & 0xffffusize) == 0 <==> x % 0x10000usize == 0) by (bit_vector); }
    if d == 0x20000usize { assert((x & 0x1ffffusize) == 0 <==> x % 0x20000usize == 0) by (bit_vector); }
    if d == 0x40000usize { assert((x & 0x3ffffusize) == 0 <==> x % 0x40000usize == 0) by (bit_vector); }
    if d == 0x80000usize { assert((x & 0x7ffffusize) == 0 <==> x % 0x80000usize == 0) by (bit_vector); }
    if d == 0x100000usize { assert((x & 0xfffffusize) == 0 <==> x % 0x100000usize == 0) by (bit_vector); }
    if d == 0x200000usize { assert((x & 0x1fffffusize) == 0 <==> x % 0x200000usize == 0) by (bit_vector); }
    if d == 0x400000usize { assert((x & 0x3fffffusize) == 0 <==> x % 0x400000usize == 0) by (bit_vector); }
    if d == 0x800000usize { assert((x & 0x7fffffusize) == 0 <==> x % 0x800000usize == 0) by (bit_vector); }
    if d == 0x1000000usize { assert((x & 0xffffffusize) == 0 <==> x % 0x1000000usize == 0) by (bit_vector); }
    if d == 0x2000000usize { assert((x & 0x1ffffffusize) == 0 <==> x % 0x2000000usize == 0) by (bit_vector); }
    if d == 0x4000000usize { assert((x & 0x3ffffffusize) == 0 <==> x % 0x4000000usize == 0) by (bit_vector); }
    if d == 0x8000000usize { assert((x & 0x7ffffffusize) == 0 <==> x % 0x8000000usize == 0) by (bit_vector); }
    if d == 0x10000000usize { assert((x & 0xfffffffusize) == 0 <==> x % 0x10000000usize == 0) by (bit_vector); }
    if d == 0x20000000usize { assert((x & 0x1fffffffusize) == 0 <==> x % 0x20000000usize == 0) by (bit_vector); }
    if d == 0x40000000usize { assert((x & 0x3fffffffusize) == 0 <==> x % 0x40000000usize == 0) by (bit_vector); }
    if d == 0x80000000usize { assert((x & 0x7fffffffusize) == 0 <==> x % 0x80000000usize == 0) by (bit_vector); }
    if d == 0x100000000usize { assert((x & 0xffffffffusize) == 0 <==> x % 0x100000000usize == 0) by (bit_vector); }
    if d == 0x200000000usize { assert((x & 0x1ffffffffusize) == 0 <==> x % 0x200000000usize == 0) by (bit_vector); }
    if d == 0x400000000usize { assert((x & 0x3ffffffffusize) == 0 <==> x % 0x400000000usize == 0) by (bit_vector); }
    if d == 0x800000000usize { assert((x & 0x7ffffffffusize) == 0 <==> x % 0x800000000usize == 0) by (bit_vector); }
    if d == 0x1000000000usize { assert((x & 0xfffffffffusize) == 0 <==> x % 0x1000000000usize == 0) by (bit_vector); }
    if d == 0x2000000000usize { assert((x & 0x1fffffffffusize) == 0 <==> x % 0x2000000000usize == 0) by (bit_vector); }
    if d == 0x4000000000usize { assert((x & 0x3fffffffffusize) == 0 <==> x % 0x4000000000usize == 0) by (bit_vector); }
    if d == 0x8000000000usize { assert((x & 0x7fffffffffusize) == 0 <==> x % 0x8000000000usize == 0) by (bit_vector); }
    if d == 0x10000000000usize { assert((x & 0xffffffffffusize) == 0 <==> x % 0x10000000000usize == 0) by (bit_vector); }
    if d == 0x20000000000usize { assert((x & 0x1ffffffffffusize) == 0 <==> x % 0x20000000000usize == 0) by (bit_vector); }
    if d == 0x40000000000usize { assert((x & 0x3ffffffffffusize) == 0 <==> x % 0x40000000000usize == 0) by (bit_vector); }
    if d == 0x80000000000usize { assert((x & 0x7ffffffffffusize) == 0 <==> x % 0x80000000000usize == 0) by (bit_vector); }
    if d == 0x100000000000usize { assert((x & 0xfffffffffffusize) == 0 <==> x % 0x100000000000usize == 0) by (bit_vector); }
    if d == 0x200000000000usize { assert((x & 0x1fffffffffffusize) == 0 <==> x % 0x200000000000usize == 0) by (bit_vector); }
    if d == 0x400000000000usize { assert((x & 0x3fffffffffffusize) == 0 <==> x % 0x400000000000usize == 0) by (bit_vector); }
    if d == 0x800000000000usize { assert((x & 0x7fffffffffffusize) == 0 <==> x % 0x800000000000usize == 0) by (bit_vector); }
    if d == 0x1000000000000usize { assert((x & 0xffffffffffffusize) == 0 <==> x % 0x1000000000000usize == 0) by (bit_vector); }
    if d == 0x2000000000000usize { assert((x & 0x1ffffffffffffusize) == 0 <==> x % 0x2000000000000usize == 0) by (bit_vector); }
    if d == 0x4000000000000usize { assert((x & 0x3ffffffffffffusize) == 0 <==> x % 0x4000000000000usize == 0) by (bit_vector); }
    if d == 0x8000000000000usize { assert((x & 0x7ffffffffffffusize) == 0 <==> x % 0x8000000000000usize == 0) by (bit_vector); }
    if d == 0x10000000000000usize { assert((x & 0xfffffffffffffusize) == 0 <==> x % 0x10000000000000usize == 0) by (bit_vector); }
    if d == 0x20000000000000usize { assert((x & 0x1fffffffffffffusize) == 0 <==> x % 0x20000000000000usize == 0) by (bit_vector); }
    if d == 0x40000000000000usize { assert((x & 0x3fffffffffffffusize) == 0 <==> x % 0x40000000000000usize == 0) by (bit_vector); }
    if d == 0x80000000000000usize { assert((x & 0x7fffffffffffffusize) == 0 <==> x % 0x80000000000000usize == 0) by (bit_vector); }
    if d == 0x100000000000000usize { assert((x & 0xffffffffffffffusize) == 0 <==> x % 0x100000000000000usize == 0) by (bit_vector); }
    if d == 0x200000000000000usize { assert((x & 0x1ffffffffffffffusize) == 0 <==> x % 0x200000000000000usize == 0) by (bit_vector); }
    if d == 0x400000000000000usize { assert((x & 0x3ffffffffffffffusize) == 0 <==> x % 0x400000000000000usize == 0) by (bit_vector); }
    if d == 0x800000000000000usize { assert((x & 0x7ffffffffffffffusize) == 0 <==> x % 0x800000000000000usize == 0) by (bit_vector); }
    if d == 0x1000000000000000usize { assert((x & 0xfffffffffffffffusize) == 0 <==> x % 0x1000000000000000usize == 0) by (bit_vector); }
    if d == 0x2000000000000000usize { assert((x & 0x1fffffffffffffffusize) == 0 <==> x % 0x2000000000000000usize == 0) by (bit_vector); }
    if d == 0x4000000000000000usize { assert((x & 0x3fffffffffffffffusize) == 0 <==> x % 0x4000000000000000usize == 0) by (bit_vector); }
    if d == 0x8000000000000000usize { assert((x & 0x7fffffffffffffffusize) == 0 <==> x % 0x8000000000000000usize == 0) by (bit_vector); }
}
} // verus!
fn main() {}
