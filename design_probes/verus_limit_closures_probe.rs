use vstd::prelude::*;
verus! {
global size_of usize == 8;

pub assume_specification[ usize::abs_diff ](a: usize, b: usize) -> (r: usize)
    ensures r == (if a >= b { a - b } else { b - a });

pub struct B { pub allocation_limit: Option<usize>, pub ab: usize }
#[derive(Clone, Copy)]
pub struct NewChunkMemoryDetails { pub new_size_without_footer: usize, pub align: usize, pub size: usize }

impl B {
    fn allocated_bytes(&self) -> (r: usize) ensures r == self.ab { self.ab }

    // real body, only Cell-erased (.get() removed)
    fn allocation_limit_remaining(&self) -> (r: Option<usize>)
        ensures
            self.allocation_limit.is_none() ==> r.is_none(),
            self.allocation_limit.is_some() && self.ab <= self.allocation_limit.unwrap() ==> r == Some((self.allocation_limit.unwrap() - self.ab) as usize),
    {
        self.allocation_limit.and_then(|allocation_limit: usize| -> (cr: Option<usize>) ensures cr == (if self.ab > allocation_limit { None::<usize> } else { Some((allocation_limit - self.ab) as usize) }) {
            let allocated_bytes = self.allocated_bytes();
            if allocated_bytes > allocation_limit {
                None
            } else {
                Some(usize::abs_diff(allocation_limit, allocated_bytes))
            }
        })
    }
}

fn chunk_fits_under_limit(
        allocation_limit_remaining: Option<usize>,
        new_chunk_memory_details: NewChunkMemoryDetails,
    ) -> (r: bool)
    ensures r == (allocation_limit_remaining.is_none() || allocation_limit_remaining.unwrap() >= new_chunk_memory_details.new_size_without_footer)
{
        allocation_limit_remaining
            .map(|allocation_limit_left: usize| -> (cr: bool) ensures cr == (allocation_limit_left >= new_chunk_memory_details.new_size_without_footer) {
                allocation_limit_left >= new_chunk_memory_details.new_size_without_footer
            })
            .unwrap_or(true)
}
} // verus!
fn main() {}
