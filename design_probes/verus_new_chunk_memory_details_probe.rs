use vstd::prelude::*;
verus! {
global size_of usize == 8;

pub open spec fn is_pow2(d: usize) -> bool { d > 0 && (d & ((d - 1) as usize)) == 0 }
pub open spec fn aligned(x: usize, d: usize) -> bool { (x & ((d - 1) as usize)) == 0 }

pub struct Layout { pub size_: usize, pub align_: usize }
impl Layout {
    pub open spec fn valid(&self) -> bool { is_pow2(self.align_) && self.size_ as int + self.align_ as int - 1 <= isize::MAX as int }
    pub fn size(&self) -> (r: usize) ensures r == self.size_ { self.size_ }
    pub fn align(&self) -> (r: usize) ensures r == self.align_ { self.align_ }
}

// trusted specs of std functions missing from vstd
pub assume_specification[ usize::next_power_of_two ](x: usize) -> (r: usize)
    requires x <= 0x8000_0000_0000_0000usize,
    ensures is_pow2(r), r >= x, x > 0 ==> r < 2 * x, x == 0 ==> r == 1;

pub fn umax(a: usize, b: usize) -> (r: usize) ensures r >= a, r >= b, r == a || r == b { if a >= b { a } else { b } }

pub const fn round_up_to(n: usize, divisor: usize) -> (r: Option<usize>)
    requires is_pow2(divisor),
    ensures match r { Some(x) => x >= n && x - n < divisor && aligned(x, divisor), None => n + divisor - 1 > usize::MAX }
{
    match n.checked_add(divisor - 1) {
        Some(x) => {
            let r = x & !(divisor - 1);
            assert(r <= x && x - r < divisor && (r & ((divisor - 1) as usize)) == 0) by (bit_vector)
                requires divisor > 0 && (divisor & ((divisor - 1) as usize)) == 0, r == x & !((divisor - 1) as usize);
            Some(r)
        }
        None => None,
    }
}

pub const TYPICAL_PAGE_SIZE: usize = 0x1000;
pub const CHUNK_ALIGN: usize = 16;
pub const FOOTER_SIZE: usize = 48;
pub const OVERHEAD: usize = 64;
pub const DEFAULT_CHUNK_SIZE_WITHOUT_FOOTER: usize = 512 - 64;

#[derive(Clone, Copy)]
pub struct NewChunkMemoryDetails { pub new_size_without_footer: usize, pub align: usize, pub size: usize }

#[verifier::external_body]
pub fn allocation_size_overflow<T>() -> T
    requires false
{ panic!() }

pub broadcast proof fn lemma_pow2_ge16_aligned16(p: usize)
    requires is_pow2(p), p >= 64,
    ensures #[trigger] aligned((p - 64) as usize, 16)
{
    assert((((p - 64) as usize) & 15) == 0) by (bit_vector) requires p > 0 && (p & ((p - 1) as usize)) == 0, p >= 64;
}
pub broadcast proof fn lemma_page_aligned16(p: usize)
    requires #[trigger] aligned(p, 0x1000), p >= 64,
    ensures #[trigger] aligned((p - 64) as usize, 16)
{
    assert((((p - 64) as usize) & 15) == 0) by (bit_vector) requires (p & 0xfff) == 0, p >= 64;
}
proof fn lemma_consts() ensures is_pow2(16), is_pow2(0x1000), is_pow2(1), is_pow2(2), is_pow2(4), is_pow2(8) {
    assert(16usize & 15usize == 0) by (bit_vector);
    assert(0x1000usize & 0xfffusize == 0) by (bit_vector);
    assert(1usize & 0usize == 0) by (bit_vector);
    assert(2usize & 1usize == 0) by (bit_vector);
    assert(4usize & 3usize == 0) by (bit_vector);
    assert(8usize & 7usize == 0) by (bit_vector);
}
proof fn lemma_max_pow2(a: usize, b: usize) requires is_pow2(a), is_pow2(b) ensures is_pow2(if a >= b { a } else { b }) {}

fn new_chunk_memory_details<const MIN_ALIGN: usize>(
        new_size_without_footer: Option<usize>,
        requested_layout: Layout,
    ) -> (res: Option<NewChunkMemoryDetails>)
    requires is_pow2(MIN_ALIGN), MIN_ALIGN <= 16, requested_layout.valid(),
        new_size_without_footer.is_some() ==> new_size_without_footer.unwrap() <= usize::MAX - 127,
    ensures
        match res {
            Some(d) => {
                &&& is_pow2(d.align) && d.align >= 16 && d.align >= MIN_ALIGN && d.align >= requested_layout.align_
                &&& d.size == d.new_size_without_footer + FOOTER_SIZE
                &&& aligned(d.new_size_without_footer, 16)
                &&& d.new_size_without_footer >= requested_layout.size_
                &&& new_size_without_footer.is_some() ==> d.new_size_without_footer >= new_size_without_footer.unwrap()
                &&& new_size_without_footer.is_none() ==> d.new_size_without_footer >= DEFAULT_CHUNK_SIZE_WITHOUT_FOOTER
            },
            None => true,
        }
{
    proof { lemma_consts(); }
    broadcast use lemma_pow2_ge16_aligned16, lemma_page_aligned16;
    let align = CHUNK_ALIGN
            .max(MIN_ALIGN)
            .max(requested_layout.align());

    let mut new_size_without_footer =
        new_size_without_footer.unwrap_or(DEFAULT_CHUNK_SIZE_WITHOUT_FOOTER);

    let requested_size =
            round_up_to(requested_layout.size(), align).unwrap_or_else(allocation_size_overflow);
    new_size_without_footer = new_size_without_footer.max(requested_size);

    if new_size_without_footer < TYPICAL_PAGE_SIZE {
        new_size_without_footer =
            (new_size_without_footer + OVERHEAD).next_power_of_two() - OVERHEAD;
    } else {
        new_size_without_footer =
            round_up_to(new_size_without_footer + OVERHEAD, TYPICAL_PAGE_SIZE)? - OVERHEAD;
    }

    assert(aligned(new_size_without_footer, CHUNK_ALIGN));
    let size = new_size_without_footer
            .checked_add(FOOTER_SIZE)
            .unwrap_or_else(allocation_size_overflow);

    Some(NewChunkMemoryDetails {
        new_size_without_footer,
        size,
        align,
    })
}

} // verus!
fn main() {}
