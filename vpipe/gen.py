"""Generator: contract template (*.vtmpl) + real source -> one Verus file, plus the obligation map.

The generated file is   use ...; verus! { <prelude> <generated consts/structs/lemmas> <template with bodies> }  fn main(){}
"""
import hashlib
import json
import os
import re
import sys

sys.path.insert(0, os.path.dirname(os.path.abspath(__file__)))
from extract import Source, Rewriter, ExtractError, mask, match_close, strip_comments, split_args  # noqa: E402

HERE = os.path.dirname(os.path.abspath(__file__))
REPO = os.environ.get('VERIF_REPO', '/repo')


# ---------------------------------------------------------------------------------------------
# generated pieces
# ---------------------------------------------------------------------------------------------
TYPE_MAP = [
    (r'^Cell<NonNull<ChunkFooter>>$', 'usize', 'cell'),
    (r'^Cell<NonNull<u8>>$', 'usize', 'cell'),
    (r'^Cell<Option<usize>>$', 'Option<usize>', 'cell'),
    (r'^NonNull<u8>$', 'usize', 'plain'),
    (r'^NonNull<ChunkFooter>$', 'usize', 'plain'),
    (r'^Layout$', 'Layout', 'plain'),
    (r'^usize$', 'usize', 'plain'),
]


def parse_fields(body):
    """`{ a: T, b: U }` -> [(name, mapped type, 'cell'|'plain', real type)]"""
    inner = body.strip()[1:-1]
    fields = []
    for part in split_args(inner):
        part = re.sub(r'#\[[^\]]*\]', '', part).strip()
        part = re.sub(r'^pub(\([a-z]+\))?\s+', '', part)
        if not part:
            continue
        name, ty = [x.strip() for x in part.split(':', 1)]
        ty = ''.join(ty.split())
        for pat, mapped, kind in TYPE_MAP:
            if re.match(pat, ty):
                fields.append((name, mapped, kind, ty))
                break
        else:
            raise ExtractError('struct field %s: unmapped type %s' % (name, ty))
    return fields


def repr_align(attrs):
    m = re.search(r'align\((\d+)\)', attrs)
    return int(m.group(1)) if m else None


def eval_const(expr, env):
    """evaluate the few const expressions of lib.rs (shifts, +, -, names) in Python; None if unknown"""
    e = expr
    e = re.sub(r'\b0x([0-9a-fA-F_]+)\b', lambda m: str(int(m.group(1).replace('_', ''), 16)), e)
    e = re.sub(r'mem::size_of::<\s*ChunkFooter\s*>\(\)', str(env['FOOTER_SIZE']), e)
    m = re.match(r'match round_up_to\((.*?),\s*(\w+)\)\s*\{\s*Some\(x\)\s*=>\s*x,\s*None\s*=>\s*panic!\(\),?\s*\}$', e)
    if m:
        a = eval_const(m.group(1), env)
        d = eval_const(m.group(2), env)
        if a is None or d is None:
            return None
        return (a + d - 1) & ~(d - 1)
    names = set(re.findall(r'\b[A-Z_][A-Z0-9_]+\b', e))
    for n in names:
        if n not in env:
            return None
        e = re.sub(r'\b%s\b' % n, str(env[n]), e)
    if not re.match(r'^[\d\s+\-*<()]+$', e):
        return None
    return eval(e, {'__builtins__': {}})


def gen_mod_lemmas():
    pows = [1 << k for k in range(64)]
    enum = ' || '.join('d == %#xusize' % p for p in pows)
    out = []
    out.append('// ---- generated: the 64 powers of two, and % / division facts for symbolic power-of-two divisors')
    out.append('pub proof fn lemma_pow2_enum(d: usize)\n    requires is_pow2(d)\n    ensures %s\n{\n    assert(d > 0 && (d & ((d - 1) as usize)) == 0 ==> (%s)) by (bit_vector);\n}' % (enum, enum))
    out.append('pub broadcast proof fn lemma_aligned_iff_mod(x: usize, d: usize)\n    requires is_pow2(d)\n    ensures aligned(x, d) <==> #[trigger] (x % d) == 0\n{\n    lemma_pow2_enum(d);')
    for p in pows:
        out.append('    if d == %#xusize { assert((x & %#xusize) == 0 <==> x %% %#xusize == 0) by (bit_vector); }' % (p, p - 1, p))
    out.append('}')
    out.append('pub proof fn lemma_rdown_is_div(n: usize, d: usize)\n    requires is_pow2(d)\n    ensures rdown(n, d) as int == (n as int / d as int) * d as int\n{\n    lemma_pow2_enum(d);')
    for p in pows:
        out.append('    if d == %#xusize { assert((n & !%#xusize) == (n / %#xusize) * %#xusize) by (bit_vector); }' % (p, p - 1, p, p))
    out.append('}')
    return '\n'.join(out)


class Generator:
    def __init__(self, template_path, src_path=None):
        self.template_path = template_path
        self.src = Source(src_path or os.path.join(REPO, 'src/lib.rs'))
        self.default_src = self.src
        self.sources = {}
        self.rule_log = {}
        self.functions = []       # dicts: name, src_name, line range in generated file, props, sha
        self.obligations = []     # dicts: id, props, fn, gen_line
        self.consts = {}
        self.notes = []

    # -- pieces generated from the source ------------------------------------------------------
    def gen_structs(self):
        attrs_f, body_f = self.src.struct_def('ChunkFooter')
        attrs_e, _ = self.src.struct_def('EmptyChunkFooter')
        attrs_b, body_b = self.src.struct_def('Bump')
        attrs_n, body_n = self.src.struct_def('NewChunkMemoryDetails')
        self.footer_fields = parse_fields(body_f)
        bump_fields = parse_fields(body_b)
        ncmd_fields = parse_fields(body_n)
        if 'repr(C)' not in attrs_f.replace(' ', ''):
            raise ExtractError('ChunkFooter is no longer #[repr(C)]: layout model does not apply')
        # size/alignment of the footer on the 64-bit target: repr(C), every field is one word except Layout (two words)
        words = sum(2 if t == 'Layout' else 1 for _, t, _, _ in self.footer_fields)
        falign = max(8, repr_align(attrs_f) or 0)
        fsize = (words * 8 + falign - 1) // falign * falign
        ealign = max(falign, repr_align(attrs_e) or 0)
        self.consts.update(FOOTER_SIZE=fsize, FOOTER_ALIGN=falign, EMPTY_ALIGN=ealign)
        out = []
        out.append('// generated from `struct ChunkFooter` (%s) by R1/R3' % ' '.join(attrs_f.split()))
        out.append('#[derive(Clone, Copy)]\npub struct ChunkFooter { %s }' % ', '.join('pub %s: %s' % (n, t) for n, t, _, _ in self.footer_fields))
        out.append('// generated from `struct Bump` by R1/R3')
        out.append('pub struct Bump<const MIN_ALIGN: usize> { %s }' % ', '.join('pub %s: %s' % (n, t) for n, t, _, _ in bump_fields))
        out.append('// generated from `struct NewChunkMemoryDetails`')
        out.append('#[derive(Clone, Copy)]\npub struct NewChunkMemoryDetails { %s }' % ', '.join('pub %s: %s' % (n, t) for n, t, _, _ in ncmd_fields))
        attrs_i, body_i = self.src.struct_def('ChunkRawIter')
        it_fields = [p_ for p_ in split_args(body_i.strip()[1:-1]) if 'PhantomData' not in p_]
        it_parsed = parse_fields('{' + ','.join(it_fields) + '}')
        out.append('// generated from `struct ChunkRawIter` (PhantomData marker dropped)')
        out.append('pub struct ChunkRawIter { %s }' % ', '.join('pub %s: %s' % (n, t) for n, t, _, _ in it_parsed))
        out.append('// footer size/alignment computed from the field list (repr(C), 64-bit); EMPTY_ALIGN from the attributes of EmptyChunkFooter (%s)' % ' '.join(attrs_e.split()))
        out.append('pub const FOOTER_SIZE: usize = %d;\npub const FOOTER_ALIGN: usize = %d;\npub const EMPTY_ALIGN: usize = %d;' % (fsize, falign, ealign))
        env = dict(self.consts)
        for name in ['TYPICAL_PAGE_SIZE', 'SUPPORTED_ITER_ALIGNMENT', 'CHUNK_ALIGN', 'MALLOC_OVERHEAD', 'OVERHEAD',
                     'FIRST_ALLOCATION_GOAL', 'DEFAULT_CHUNK_SIZE_WITHOUT_FOOTER']:
            expr = self.src.const_expr(name)
            val = eval_const(expr, env)
            if val is None:
                raise ExtractError('const %s = %s: cannot evaluate' % (name, expr))
            env[name] = val
            self.consts[name] = val
            out.append('pub const %s: usize = %d; // real: %s' % (name, val, expr))
        self.bump_cells = [n for n, _, k, _ in bump_fields if k == 'cell']
        return '\n'.join(out)

    def gen_table(self, ln):
        """`//@table NAME file=PATH static=IDENT`: the `static IDENT: [u8; N] = [...]` of the source, read on every run and emitted as a spec
        function over run-length encoded ranges plus the (trusted: array indexing) exec accessor `NAME_at(i)`"""
        toks = ln.split()
        name = toks[1]
        opts = dict(t.split('=', 1) for t in toks[2:])
        path = os.path.join(REPO, opts['file'])
        txt = open(path).read()
        m = re.search(r'static\s+%s\s*:\s*\[u8;\s*(\d+)\]\s*=\s*\[(.*?)\];' % re.escape(opts['static']), strip_comments(txt, mask(txt)), re.S)
        if not m:
            raise ExtractError('table %s not found in %s' % (opts['static'], opts['file']))
        vals = [int(x) for x in re.findall(r'\d+', m.group(2))]
        if len(vals) != int(m.group(1)):
            raise ExtractError('table %s: %d entries, declared %s' % (opts['static'], len(vals), m.group(1)))
        runs, a = [], 0
        for k in range(1, len(vals) + 1):
            if k == len(vals) or vals[k] != vals[a]:
                runs.append((a, k - 1, vals[a])); a = k
        body = ' else '.join('if %d <= i <= %d { %du8 }' % r for r in runs) + ' else { 0u8 }'
        self.consts['table:' + opts['static']] = hashlib.sha256(str(vals).encode()).hexdigest()[:12]
        self.rule_log['table-from-source'] = self.rule_log.get('table-from-source', 0) + 1
        return ('// generated from `static %s` in %s (%d entries, %d runs)\npub open spec fn %s(i: int) -> u8 { %s }\n'
                '#[verifier::external_body]\npub fn %s_at(i: usize) -> (r: u8) requires i < %d ensures r == %s(i as int) { unimplemented!() }'
                % (opts['static'], opts['file'], len(vals), len(runs), name, body, name, len(vals), name))

    def gen_footer_setters(self):
        out = []
        for n, t, kind, real in self.footer_fields:
            upd = 'ChunkFooter { %s: v, ..old(w).footers@[a] }' % n
            common = ('    requires\n        old(w).footers@.dom().contains(a),   // @ob C03,C01 footer.write_live\n'
                      '        a != EMPTY_ADDR(),   // @ob C20 footer.write_permission (the shared static sentinel is read-only)\n')
            ens = ('        final(w).footers@ == old(w).footers@.insert(a, %s),\n        final(w).ledger@ == old(w).ledger@,\n        final(w).depth@ == old(w).depth@,\n' % upd)
            out.append('#[verifier::external_body]\npub fn footer_set_%s(w: &mut World, a: usize, v: %s)\n%s    ensures\n%s{ unimplemented!() }' % (n, t, common, ens))
            out.append('#[verifier::external_body]\npub fn footer_replace_%s(w: &mut World, a: usize, v: %s) -> (r: %s)\n%s    ensures\n        r == old(w).footers@[a].%s,\n%s{ unimplemented!() }' % (n, t, t, common, n, ens))
        return '\n'.join(out)

    # -- body extraction --------------------------------------------------------------------------
    def extract_body(self, spec):
        # `file=src/...` on a //@fn line (or the default file of an //@include) selects another source file of the tree
        if spec.get('file'):
            fp = os.path.join(REPO, spec['file'])
            if fp not in self.sources:
                self.sources[fp] = Source(fp)
            self.src = self.sources[fp]
        else:
            self.src = self.default_src
        impl = spec.get('impl', 'bump')
        src_name = spec.get('src', spec['name'])
        if impl == 'bump':
            rng = self.src.impl_block(r'^impl<const MIN_ALIGN: usize> Bump<MIN_ALIGN>$')
        elif impl == 'bump1':
            rng = self.src.impl_block(r'^impl Bump<1>$')
        elif impl == 'footer':
            rng = self.src.impl_block(r'^impl ChunkFooter$')
        elif impl == 'iter':
            rng = self.src.impl_block(r'^impl<const MIN_ALIGN: usize> Iterator for ChunkRawIter<')
        elif impl == 'drop':
            rng = self.src.impl_block(r'^impl<const MIN_ALIGN: usize> Drop for Bump<MIN_ALIGN>$')
        elif impl == 'rawvec':
            rng = self.src.impl_block_containing(r"^impl<'a, T> RawVec<'a, T>$", src_name)
        elif impl == 'vec':
            rng = self.src.impl_block_containing(r"^impl<'bump, T: 'bump> Vec<'bump, T>$", src_name)
        elif impl == 'string':
            rng = self.src.impl_block_containing(r"^impl<'bump> String<'bump>$", src_name)
        elif impl == 'freefn':
            rng = None
        elif impl == 'intoiterdrop':
            rng = self.src.impl_block_containing(r"^impl<'bump, T> Drop for IntoIter<'bump, T>$", src_name)
        elif impl == 'dfnext':
            rng = self.src.impl_block_containing(r"^impl<'a, 'bump, T, F> Iterator for DrainFilter<'a, 'bump, T, F> where", src_name)
        elif impl == 'dfdrop':
            rng = self.src.impl_block_containing(r"^impl<'a, 'bump, T, F> Drop for DrainFilter<'a, 'bump, T, F> where", src_name)
        elif impl == 'nested':
            outer = self.src.impl_block_containing(spec['outer_impl'].replace('~', ' '), spec['nested_in'])
            _s, o_, c_ = self.src.find_fn(spec['nested_in'], outer)
            rng = self.src.nested_impl_block((o_, c_), spec['nested_impl'].replace('~', ' '))
        elif impl == 'setlen':
            rng = self.src.impl_block_containing(r"^impl<'a> SetLenOnDrop<'a>$", src_name)
        elif impl == 'free':
            rng = None
        elif impl == 'nestedfn':
            # a `fn` item declared inside the body of another function of the main impl block
            outer = self.src.impl_block_containing(spec['outer_impl'].replace('~', ' ') if spec.get('outer_impl') else r'^impl<const MIN_ALIGN: usize> Bump<MIN_ALIGN>$', spec['nested_in'])
            _s, o_, c_ = self.src.find_fn(spec['nested_in'], outer)
            rng = (o_, c_)
        elif impl.startswith('re:'):
            rng = self.src.impl_block_containing(impl[3:].replace('~', ' '), src_name)
        elif impl.startswith('macro:'):
            # a method defined in the body of a `macro_rules!` (an impl template instantiated several times): range = the macro's block;
            # the fn sits at depth 3 (macro { arm => { impl { fn), `pick` selects among the impl templates of the macro
            mm = re.search(r'(?m)^macro_rules! ' + re.escape(impl[6:]) + r' \{', self.src.masked)
            if not mm:
                raise ExtractError('macro_rules! %s not found in %s' % (impl[6:], self.src.path))
            o_ = mm.end() - 1
            rng = (o_, match_close(self.src.masked, o_))
            macro_depth = 3
        else:
            raise ExtractError('unknown impl kind ' + impl)
        parts = self.src.fn_parts(src_name, rng, want_depth=(3 if impl.startswith('macro:') else None), pick=int(spec['pick']) if spec.get('pick') else None)
        body = parts['body']
        region = spec.get('region')
        if region:
            body = self.cut_region(body, region)
        cfg = {
            'kind': spec.get('kind') or ('footer' if impl == 'footer' else ('vec' if impl == 'vec' else impl)),
            'drain_drop': spec.get('drain_drop'),
            'cand': spec.get('cand'), 'glue': spec.get('glue'), 'cb': spec.get('cb'), 'splice_drop': spec.get('splice_drop'), 'dfilter': spec.get('dfilter'), 'slice_folds': spec.get('slice_folds'), 'closure_rel': spec.get('closure_rel'), 'addr_arith': spec.get('addr_arith'), 'must_forget_self': spec.get('must_forget_self'), 'fwd_closure': spec.get('fwd_closure'), 'fwd_str': spec.get('fwd_str'), 'self_is_deref': spec.get('self_is_deref'),
            'trait_grow': spec.get('trait_grow'),
            'wbase': spec.get('wbase'), 'wsize': spec.get('wsize'), 'outer': spec.get('src', spec['name']), 'strip_fns': spec.get('strip_fns'),
            'guard': spec.get('guard'),
            'strip_nested': spec.get('strip_nested'),
            'drop_takes_state': spec.get('drop_takes_state'),
            'footer_fields': [n for n, _, _, _ in self.footer_fields],
            'self_cells': self.bump_cells if (impl in ('bump', 'bump1', 'drop') or spec.get('kind') == 'allocglue') else (['footer'] if impl == 'iter' else []),
            'w_funcs': self.w_funcs,
            'desugar': dict(kv.split(':') for kv in spec['desugar'].split(',')) if spec.get('desugar') else {},
        }
        rw = Rewriter(cfg)
        new = rw.rewrite(body)
        for k, v in rw.log.items():
            self.rule_log[k] = self.rule_log.get(k, 0) + v
        # closure headers (R11) and loop invariants by ordinal
        new = self.splice_closures(new, spec)
        new = self.splice_loops(new, spec)
        if spec.get('mutparam'):
            # R14: `mut p: T` parameter == immutable parameter p0 plus `let mut p = p0;` as the first statement
            p0, p1 = spec['mutparam'].split(':')
            if not re.search(r'\bmut %s\b' % p1, parts['sig']):
                raise ExtractError('%s: parameter `mut %s` not found in the real signature' % (spec['name'], p1))
            o = new.index('{')
            new = new[:o + 1] + '\n    let mut %s = %s;' % (p1, p0) + new[o + 1:]
            self.rule_log['R14:mut-param'] = self.rule_log.get('R14:mut-param', 0) + 1
        if spec.get('mutself') and not (spec['mutself'] == 'auto' and not re.search(r'\(\s*mut self\b', parts['sig'])):
            # R14': `mut self` (by value) == immutable `self` plus `let mut self__ = self;` as the first statement (Verus has no `mut self`)
            # (`mutself=auto`: applied iff the real receiver is declared `mut`)
            if not re.search(r'\(\s*mut self\b', parts['sig']):
                raise ExtractError('%s: receiver `mut self` not found in the real signature' % spec['name'])
            o = new.index('{')
            new = new[:o + 1] + '\n    let mut self__ = self;' + re.sub(r'\bself\b', 'self__', new[o + 1:])
            self.rule_log['R14:mut-self'] = self.rule_log.get('R14:mut-self', 0) + 1
        for where, pat, text in spec.get('hints', []):
            # ghost-only hints (proof blocks / ghost lets) anchored at a statement of the real body; exec statements are untouched
            ls = new.split('\n')
            idx = [k for k, l in enumerate(ls) if re.search(pat, l)]
            if where.endswith('?'):
                # optional ghost hint: if the statement it annotates is gone, the body is verified without it
                where = where[:-1]
                if not idx:
                    self.rule_log['ghost-hint-unused'] = self.rule_log.get('ghost-hint-unused', 0) + 1
                    continue
            if len(idx) != 1:
                raise ExtractError('%s: hint anchor /%s/ matches %d lines' % (spec['name'], pat, len(idx)))
            k = idx[0] + (1 if where == 'after' else 0)
            ls[k:k] = ['    /* ghost hint (not part of the real body) */ ' + t for t in text.split('\n')]
            new = '\n'.join(ls)
            self.rule_log['ghost-hint'] = self.rule_log.get('ghost-hint', 0) + 1
        if spec.get('prologue'):
            o = new.index('{')
            new = new[:o + 1] + '\n    proof { // contract-side prologue (not part of the real body)\n' + spec['prologue'] + '\n    }' + new[o + 1:]
            self.rule_log['proof-prologue'] = self.rule_log.get('proof-prologue', 0) + 1
        if spec.get('epilogue'):
            # ghost-only: a proof block as the last statement of a body whose value is ()
            c = new.rindex('}')
            new = new[:c] + '    ; proof { // contract-side epilogue (not part of the real body)\n' + spec['epilogue'] + '\n    }\n' + new[c:]
            self.rule_log['proof-epilogue'] = self.rule_log.get('proof-epilogue', 0) + 1
        parts['rewritten'] = new
        parts['sha256'] = hashlib.sha256(body.encode()).hexdigest()
        parts['rules'] = dict(rw.log)
        return parts

    def cut_region(self, body, region):
        """region = 'arm:Err(e)'  -> the block of the match arm `Err(e) => unsafe { ... }` up to (not including) the
        final expression statement that starts with `Err(`.  Returned as a `{ ... }` block."""
        kind, _, what = region.partition(':')
        if kind == 'stmt':
            # region = 'stmt:let layout|TAIL' -> the single statement starting with the anchor, wrapped as `{ STATEMENT TAIL }`
            anchor, _, tail = what.partition('|')
            anchor = anchor.replace('~', ' ')
            m = mask(body)
            k = m.find(anchor + ' =')
            if k < 0:
                raise ExtractError('region anchor %r not found' % anchor)
            if m.find(anchor + ' =', k + 1) >= 0:
                raise ExtractError('region anchor %r is ambiguous' % anchor)
            depth, e = 0, k
            while True:
                ch = m[e]
                if ch in '({[':
                    depth += 1
                elif ch in ')}]':
                    depth -= 1
                elif ch == ';' and depth == 0:
                    break
                e += 1
            return '{\n        ' + body[k:e + 1] + '\n        ' + tail + '\n    }'
        if kind == 'span':
            # region = 'span:ANCHOR1|ANCHOR2': from the statement starting with ANCHOR1 through the `match`/block statement
            # starting with ANCHOR2 (inclusive), wrapped as a block
            parts_ = what.split('|')
            a1, a2 = parts_[0].replace('~', ' '), parts_[1].replace('~', ' ')
            what_tail = parts_[2].replace('~', ' ') if len(parts_) > 2 else ''
            m = mask(body)
            k1 = m.find(a1)
            k2 = m.find(a2, k1 + 1)
            if k1 < 0 or k2 < 0 or m.find(a1, k1 + 1) >= 0 or m.find(a2, k2 + 1) >= 0:
                raise ExtractError('region anchors %r..%r not found exactly once' % (a1, a2))
            o = m.index('{', k2)
            c = match_close(m, o)
            e = c + 1
            while e < len(m) and m[e] in ' \t':
                e += 1
            if e < len(m) and m[e] == ';':
                e += 1
            txt = body[k1:e]
            # close blocks (e.g. `unsafe {`) that were opened inside the span and end after it
            mt = mask(txt)
            opened = mt.count('{') - mt.count('}')
            tail = (what_tail or '')
            return '{\n        ' + txt + '\n        ' + ('}' * max(0, opened)) + '\n        ' + tail + '\n    }'
        if kind != 'arm':
            raise ExtractError('unknown region kind')
        m = mask(body)
        k = m.find(what + ' =>')
        if k < 0:
            raise ExtractError('region anchor %r not found' % what)
        o = m.index('{', k)
        c = match_close(m, o)
        blk = body[o:c + 1]
        mb = mask(blk)
        # drop the trailing expression (the moved-out error value): last top-level statement
        depth, last = 0, None
        for i, ch in enumerate(mb):
            if ch in '({[':
                depth += 1
            elif ch in ')}]':
                depth -= 1
                if depth == 1 and ch == '}':
                    last = i
        if last is None:
            # no nested block: the arm is a flat statement list; drop its final expression (the moved-out error value)
            inner = blk[1:-1]
            mi = mask(inner)
            depth, cut = 0, None
            for i, ch in enumerate(mi):
                if ch in '({[':
                    depth += 1
                elif ch in ')}]':
                    depth -= 1
                elif ch == ';' and depth == 0:
                    cut = i
            if cut is None:
                raise ExtractError('region: no statement before the final expression')
            return '{' + inner[:cut + 1] + '\n}'
        return blk[:last + 1] + '\n}'

    def splice_closures(self, b, spec):
        cl = spec.get('closures', {})
        if not cl:
            return b
        out, i, n = '', 0, 0
        mm = mask(b)
        for m in re.finditer(r'(?<![\w|])(move\s+)?\|([^|]*)\|(?!\|)', mm):
            if n in cl:
                out += b[i:m.start()] + cl[n] + ' '
                i = m.end()
                # an annotated closure needs a braced body: wrap a bare expression body
                k = i
                while mm[k] in ' \n\t':
                    k += 1
                if mm[k] != '{':
                    depth, e = 0, k
                    while True:
                        ch = mm[e]
                        if ch in '([{':
                            depth += 1
                        elif ch in ')]}':
                            if depth == 0:
                                break
                            depth -= 1
                        elif ch == ',' and depth == 0:
                            break
                        e += 1
                    out += '{ ' + b[k:e].strip() + ' }'
                    i = e
                self.rule_log['R11:closure-header'] = self.rule_log.get('R11:closure-header', 0) + 1
            n += 1
        out += b[i:]
        missing = [k for k in cl if k >= n]
        if missing:
            raise ExtractError('%s: closure ordinal(s) %s not found (%d closures)' % (spec['name'], missing, n))
        return out

    def splice_loops(self, b, spec):
        lp = spec.get('loops', {})
        if not lp:
            return b
        mm = mask(b)
        hits = list(re.finditer(r'\b(while|for|loop)\b[^{;]*\{', mm))
        for n in sorted(lp, reverse=True):
            if n >= len(hits):
                if n in spec.get('optional_loops', ()):
                    # the loop the invariant belongs to is gone: verify the body without it (its postconditions then decide)
                    self.rule_log['loop-invariant-unused'] = self.rule_log.get('loop-invariant-unused', 0) + 1
                    continue
                raise ExtractError('%s: loop ordinal %d not found' % (spec['name'], n))
            o = hits[n].end() - 1
            b = b[:o] + '\n' + lp[n] + '\n' + b[o:]
            self.rule_log['loop-invariant'] = self.rule_log.get('loop-invariant', 0) + 1
        return b

    # -- template processing ------------------------------------------------------------------------
    def parse_template(self):
        lines = []
        for ln in open(self.template_path).read().split('\n'):
            m = re.match(r'//@include (\S+)(.*)$', ln)
            if not m:
                lines.append(ln)
                continue
            # //@include OTHER.vtmpl [file=DEFAULT_SOURCE] [subst=OLD=>NEW (~ for space)]: splice another template in
            opts = dict(kv.split('=', 1) for kv in m.group(2).split() if '=' in kv)
            inc = open(os.path.join(HERE, m.group(1))).read()
            if opts.get('subst'):
                a, b_ = opts['subst'].replace('~', ' ').split('=>')
                if a not in inc:
                    raise ExtractError('include %s: substitution source %r not found' % (m.group(1), a))
                inc = inc.replace(a, b_)
            for l2 in inc.split('\n'):
                if l2.startswith('//@fn ') and opts.get('file') and ' file=' not in l2:
                    l2 += ' file=' + opts['file']
                lines.append(l2)
            self.notes.append('included template %s' % m.group(1))
        # first pass: collect function specs to know which functions take the world
        specs, cur = [], None
        self.w_funcs = []
        self.trusted_fns = []
        i = 0
        while i < len(lines):
            ln = lines[i]
            if ln.startswith('//@fn '):
                toks = ln[6:].split()
                cur = {'name': toks[0], 'closures': {}, 'loops': {}, 'header_start': i + 1}
                if 'trusted=1' in toks:
                    # no body extraction: an ASSUMED contract (listed in the evidence); still takes the world parameter
                    self.w_funcs.append(toks[0])
                    self.trusted_fns.append(toks[0])
                    cur = None
                    i += 1
                    continue
                for t in toks[1:]:
                    k, _, v = t.partition('=')
                    cur[k] = v
                specs.append(cur)
            elif ln.startswith('//@closure ') and cur is not None:
                m = re.match(r'//@closure (\d+):\s*(.*)$', ln)
                cur['closures'][int(m.group(1))] = m.group(2)
            elif ln.startswith('//@loop ') and cur is not None:
                m = re.match(r'//@loop (\d+)( optional)?:', ln)
                if m.group(2):
                    cur.setdefault('optional_loops', set()).add(int(m.group(1)))
                j = i + 1
                blk = []
                while not lines[j].startswith('//@endloop'):
                    blk.append(lines[j]); j += 1
                cur['loops'][int(m.group(1))] = '\n'.join(blk)
                cur.setdefault('skip', set()).update(range(i, j + 1))
                i = j
            elif ln.startswith('//@hint ') and cur is not None:
                m = re.match(r'//@hint (after\??|before\??) /(.*)/\s*$', ln)
                j = i + 1
                blk = []
                while not lines[j].startswith('//@endhint'):
                    blk.append(lines[j]); j += 1
                cur.setdefault('hints', []).append((m.group(1), m.group(2), '\n'.join(blk)))
                cur.setdefault('skip', set()).update(range(i, j + 1))
                i = j
            elif ln.startswith('//@epilogue') and cur is not None:
                j = i + 1
                blk = []
                while not lines[j].startswith('//@endepilogue'):
                    blk.append(lines[j]); j += 1
                cur['epilogue'] = '\n'.join(blk)
                cur.setdefault('skip', set()).update(range(i, j + 1))
                i = j
            elif ln.startswith('//@prologue') and cur is not None:
                j = i + 1
                blk = []
                while not lines[j].startswith('//@endprologue'):
                    blk.append(lines[j]); j += 1
                cur['prologue'] = '\n'.join(blk)
                cur.setdefault('skip', set()).update(range(i, j + 1))
                i = j
            elif ln.startswith('//@body') and cur is not None:
                cur['body_line'] = i
                hdr = '\n'.join(l for k, l in enumerate(lines[cur['header_start']:i], cur['header_start']) if not l.startswith('//@') and k not in cur.get('skip', set()))
                if re.search(r'\bw:\s*&(mut\s+)?World', hdr):
                    self.w_funcs.append(cur['name'])
                    mh = re.search(r'\bfn (\w+)', hdr)
                    if mh and mh.group(1) != cur['name']:
                        self.w_funcs.append(mh.group(1))     # the function's own name when the spec entry carries a qualified one
                cur['header'] = hdr
                cur = None
            i += 1
        return lines, specs

    def generate(self):
        lines, specs = self.parse_template()
        self.footer_fields, self.bump_cells = [], []
        has_structs = any(l.startswith('//@structs') for l in lines)
        structs = self.gen_structs() if has_structs else ''
        setters = self.gen_footer_setters() if has_structs else ''
        prelude = open(os.path.join(HERE, 'prelude.rs')).read()
        out = []

        def emit(text):
            for l in text.split('\n'):
                out.append(l)

        emit('// GENERATED by /verif/vpipe/gen.py from %s and %s -- do not edit' % (self.template_path, self.src.path))
        emit('#![allow(unused_imports, unused_variables, unused_mut, dead_code, unused_parens, unused_braces)]')
        emit('use vstd::prelude::*;')
        emit('use core::cmp::Ordering;')
        emit('verus! {')
        emit('global size_of usize == 8;')
        emit('pub mod pre {')
        emit('use vstd::prelude::*;')
        emit(prelude.replace('global size_of usize == 8;', ''))
        emit(gen_mod_lemmas())
        emit('} // mod pre')
        emit('pub mod arena {')
        emit('use vstd::prelude::*;')
        emit('use core::cmp::Ordering;')
        emit('use super::pre::*;')
        by_body_line = {s['body_line']: s for s in specs if 'body_line' in s}
        skip = set()
        for s in specs:
            skip |= s.get('skip', set())
        cur_fn = None
        skip_until_body = False
        for idx, ln in enumerate(lines):
            if idx in skip:
                continue
            if ln.startswith('//@#'):
                continue
            if ln.startswith('//@table '):
                emit(self.gen_table(ln)); continue
            if ln.startswith('//@structs'):
                emit(structs); continue
            if ln.startswith('//@footer_setters'):
                emit(setters); continue
            if ln.startswith('//@fn '):
                name = ln[6:].split()[0]
                cur_fn = {'name': name, 'gen_start': len(out) + 1}
                if 'trusted=1' in ln:
                    cur_fn = None
                if ' optional=1' in ln:
                    # a helper that may legitimately disappear from the source: if it is gone, its contract is dropped and callers decide
                    sp = next(s_ for s_ in specs if s_['name'] == name)
                    try:
                        self.extract_body(sp)
                    except ExtractError as e:
                        if 'found 0' not in str(e) and 'no impl block' not in str(e):
                            raise
                        self.notes.append('optional function %s not present in the source: contract dropped' % name)
                        self.rule_log['optional-function-absent'] = self.rule_log.get('optional-function-absent', 0) + 1
                        skip_until_body = True
                        cur_fn = None
                continue
            if skip_until_body:
                if ln.startswith('//@body'):
                    skip_until_body = False
                continue
            if ln.startswith('//@closure') or ln.startswith('//@loop') or ln.startswith('//@endloop'):
                continue
            if ln.startswith('//@body'):
                s = by_body_line[idx]
                parts = self.extract_body(s)
                emit('// ---- body of `%s` extracted from %s:%d-%d (sha256 %s), rules: %s' % (
                    s.get('src', s['name']), os.path.relpath(self.src.path, REPO), parts['line'], parts['end_line'],
                    parts['sha256'][:12], ','.join(sorted(parts['rules']))))
                body_start = len(out) + 1
                emit(parts['rewritten'])
                cur_fn.update(src=s.get('src', s['name']), src_file=os.path.relpath(self.src.path, REPO), gen_end=len(out), body_start=body_start,
                              props=[p for p in s.get('props', '').split(',') if p],
                              src_line=parts['line'], src_end_line=parts['end_line'], sha256=parts['sha256'],
                              rules=parts['rules'], sig=parts['sig'], real_body=parts['body'], rewritten=parts['rewritten'])
                self.functions.append(cur_fn)
                cur_fn = None
                continue
            emit(ln)
        emit('} // mod arena')
        emit('} // verus!')
        emit('fn main() {}')
        # obligation tags
        for no, l in enumerate(out, 1):
            m = re.search(r'//\s*@ob\s+([C0-9,]+)\s+(\S+)', l)
            if m:
                self.obligations.append({'id': m.group(2), 'props': m.group(1).split(','), 'gen_line': no})
        # implicit obligations: debug assertions and shim preconditions inside extracted bodies
        for f in self.functions:
            n_dbg = 0
            for no in range(f['body_start'], f['gen_end'] + 1):
                l = out[no - 1]
                for m in re.finditer(r'\brt_debug_assert\(', l):
                    n_dbg += 1
                    self.obligations.append({'id': '%s.debug_assert#%d' % (f['name'], n_dbg), 'props': sorted(set(f['props'] + ['C09'])),
                                             'gen_line': no, 'fn': f['name'], 'implicit': True})
        return '\n'.join(out) + '\n'


def main():
    tmpl = sys.argv[1]
    outp = sys.argv[2]
    g = Generator(tmpl)
    text = g.generate()
    open(outp, 'w').write(text)
    meta = {'functions': [{k: v for k, v in f.items() if k not in ('real_body', 'rewritten')} for f in g.functions],
            'obligations': g.obligations, 'rule_log': g.rule_log, 'consts': g.consts}
    json.dump(meta, open(outp + '.meta.json', 'w'), indent=1)
    print('generated %s: %d functions, %d tagged obligations' % (outp, len(g.functions), len(g.obligations)))


if __name__ == '__main__':
    try:
        main()
    except ExtractError as e:
        print('UNDECIDED extraction:', e)
        sys.exit(2)
