// ============================================================================================
// TRUSTED PRELUDE (hand written, /verif/vpipe/prelude.rs) -- specification vocabulary, shims for
// the raw-pointer / Cell / global-allocator operations the rewrite table R1..R12 maps real code to,
// and bit-vector lemmas (the lemmas are *proved* by Verus, only the shims marked external_body and
// the assume_specification items are assumptions; bin/check lists them mechanically).
// ============================================================================================
global size_of usize == 8;

pub closed spec fn is_pow2(d: usize) -> bool { d > 0 && (d & ((d - 1) as usize)) == 0 }
pub closed spec fn aligned(x: usize, d: usize) -> bool { (x & ((d - 1) as usize)) == 0 }
/// greatest multiple of the power of two d that is <= n (closed: its properties come from the lemmas below)
pub closed spec fn rdown(n: usize, d: usize) -> usize { n & !((d - 1) as usize) }
/// least multiple of d that is >= n, as a mathematical integer (exceeds usize::MAX exactly when the machine computation overflows)
pub open spec fn rup(n: usize, d: usize) -> int { if n + d - 1 > usize::MAX { n + d - 1 } else { rdown((n + d - 1) as usize, d) as int } }
pub open spec fn umax(a: usize, b: usize) -> usize { if a >= b { a } else { b } }

// ---- std::alloc::Layout (trusted spec of std's documented contract) ------------------------
#[derive(Clone, Copy, PartialEq, Eq, Debug)]
pub struct Layout { pub size_: usize, pub align_: usize }
#[derive(Debug)]
pub struct LayoutError;
impl Layout {
    pub open spec fn valid(&self) -> bool {
        is_pow2(self.align_) && self.size_ as int + self.align_ as int - 1 <= isize::MAX as int
    }
    /// unsafe: the caller promises a valid layout
    pub fn from_size_align_unchecked(size: usize, align: usize) -> (r: Layout)
        requires is_pow2(align) && size as int + align as int - 1 <= isize::MAX as int,   // @ob C09,C19 from_size_align_unchecked.layout_is_valid
        ensures r == (Layout { size_: size, align_: align })
    { Layout { size_: size, align_: align } }
    pub fn size(&self) -> (r: usize) ensures r == self.size_ { self.size_ }
    pub fn align(&self) -> (r: usize) ensures r == self.align_ { self.align_ }
    #[verifier::external_body]
    pub fn from_size_align(size: usize, align: usize) -> (r: Result<Layout, LayoutError>)
        ensures
            r.is_ok() <==> (is_pow2(align) && size as int + align as int - 1 <= isize::MAX as int),
            r.is_ok() ==> r.unwrap() == (Layout { size_: size, align_: align }),
    { unimplemented!() }
}

// ---- std integer functions missing from vstd (assumed specs) -------------------------------
// std integer methods a maintainer may reach for (assumed specs, std's documentation)
pub assume_specification[usize::overflowing_mul](a: usize, b: usize) -> (r: (usize, bool))
    ensures r.1 == (a * b > usize::MAX), !r.1 ==> r.0 == a * b, r.0 as int == (a * b) % 0x1_0000_0000_0000_0000;
pub assume_specification[usize::overflowing_add](a: usize, b: usize) -> (r: (usize, bool))
    ensures r.1 == (a + b > usize::MAX), !r.1 ==> r.0 == a + b, r.0 as int == (a + b) % 0x1_0000_0000_0000_0000;
pub assume_specification[usize::checked_next_power_of_two](a: usize) -> (r: Option<usize>)
    ensures match r { Some(p) => is_pow2(p) && p >= a && (a > 1 ==> p / 2 < a), None => a > 0x8000_0000_0000_0000usize };
pub assume_specification[ usize::next_power_of_two ](x: usize) -> (r: usize)
    requires x <= 0x8000_0000_0000_0000usize,   // debug build panics above (overflow check)
    ensures is_pow2(r), r >= x, x > 0 ==> r < 2 * x, x == 0 ==> r == 1;
pub assume_specification[ usize::is_power_of_two ](x: usize) -> (r: bool)
    ensures r == is_pow2(x);
pub assume_specification[ usize::abs_diff ](a: usize, b: usize) -> (r: usize)
    ensures r == (if a >= b { a - b } else { b - a });

// ---- assertions ----------------------------------------------------------------------------
/// debug_assert!(c): evaluated in exec mode; *proof obligation* that it can never fire (R6)
pub fn rt_debug_assert(b: bool)
    requires b,   // @ob C09 debug_assert.never_fires
{}
/// assert!(c): may panic; afterwards c holds (R6)
#[verifier::external_body]
pub fn rt_assert(b: bool) ensures b { assert!(b) }
/// `size_of::<X>()` of a type the model does not name: any value rustc can produce
#[verifier::external_body]
pub fn SIZE_OF_OTHER() -> (r: usize) ensures r <= isize::MAX as usize { unimplemented!() }
/// Option::expect(msg): panics on None; afterwards the value is there (R6)
#[verifier::external_body]
pub fn opt_expect<T>(o: Option<T>) -> (r: T) ensures o == Some(r) { o.unwrap() }
/// core::hint::unreachable_unchecked(): UB if reached => obligation `false`
#[verifier::external_body]
pub fn unreachable_unchecked<T>() -> T
    requires false,   // @ob C09,C01,C02 unreachable_unchecked.unreachable
{ unreachable!() }

// ---- pointers as addresses (R1/R2/R7) ------------------------------------------------------
pub fn ptr_add(p: usize, n: usize) -> (r: usize)
    requires p + n <= usize::MAX,   // @ob C01,C09,C19,C02 ptr_add.no_wrap
    ensures r == p + n
{ p + n }
pub fn umax_exec(a: usize, b: usize) -> (r: usize) ensures r == umax(a, b) { if a >= b { a } else { b } }
pub fn ptr_is_null(p: usize) -> (r: bool) ensures r == (p == 0) { p == 0 }
pub fn nonnull_new(p: usize) -> (r: Option<usize>)
    ensures r == (if p == 0 { None::<usize> } else { Some(p) })
{ if p == 0 { None } else { Some(p) } }
pub fn ptr_offset_from(a: usize, b: usize) -> (r: usize)
    requires b <= a, a - b <= isize::MAX as usize,   // @ob C10,C01,C02 offset_from.in_same_block
    ensures r == a - b
{ a - b }
/// ptr::copy_nonoverlapping(src, dst, n): std's safety condition on the two address ranges
pub fn copy_nonoverlapping_shim(src: usize, dst: usize, n: usize)
    requires
        src as int + n as int <= usize::MAX as int,
        dst as int + n as int <= usize::MAX as int,
        (src as int + n as int <= dst as int) || (dst as int + n as int <= src as int) || n == 0,   // @ob C02,C12 copy_nonoverlapping.ranges_disjoint
{}
/// ptr::copy(src, dst, n) (memmove): ranges must be addressable, may overlap
pub fn copy_shim(src: usize, dst: usize, n: usize)
    requires src as int + n as int <= usize::MAX as int, dst as int + n as int <= usize::MAX as int,
{}

// ---- bit-vector lemmas (proved by Verus; broadcast so that no hint is spliced into real bodies) -----
pub broadcast proof fn lemma_pow2_consts()
    ensures #[trigger] is_pow2(1), is_pow2(2), is_pow2(4), is_pow2(8), is_pow2(16), is_pow2(0x1000),
{
    assert(1usize & 0usize == 0) by (bit_vector);
    assert(2usize & 1usize == 0) by (bit_vector);
    assert(4usize & 3usize == 0) by (bit_vector);
    assert(8usize & 7usize == 0) by (bit_vector);
    assert(16usize & 15usize == 0) by (bit_vector);
    assert(0x1000usize & 0xfffusize == 0) by (bit_vector);
}
pub broadcast proof fn lemma_pow2_pos(d: usize)
    requires #[trigger] is_pow2(d)
    ensures d > 0
{}
/// the bit pattern `n & !(d - 1)` is rdown
pub broadcast proof fn lemma_mask_is_rdown(n: usize, d: usize)
    requires d > 0
    ensures #[trigger] (n & !((d - 1) as usize)) == rdown(n, d)
{}
/// the bit pattern `p & (d - 1)` is the distance to rdown
pub broadcast proof fn lemma_low_bits(p: usize, d: usize)
    requires is_pow2(d),
    ensures
        #![trigger p & ((d - 1) as usize)]
        (p & ((d - 1) as usize)) <= p,
        p - (p & ((d - 1) as usize)) == rdown(p, d),
{
    let m = p & ((d - 1) as usize);
    assert(m <= p && ((p - m) as usize) == p & !((d - 1) as usize)) by (bit_vector)
        requires d > 0 && (d & ((d - 1) as usize)) == 0, m == p & ((d - 1) as usize);
}
pub broadcast proof fn lemma_rdown(n: usize, d: usize)
    requires is_pow2(d),
    ensures
        #![trigger rdown(n, d)]
        rdown(n, d) <= n,
        n - rdown(n, d) < d,
        aligned(rdown(n, d), d),
        aligned(n, d) <==> rdown(n, d) == n,
{
    let r = n & !((d - 1) as usize);
    assert(r <= n && n - r < d && (r & ((d - 1) as usize)) == 0
        && ((n & ((d - 1) as usize)) == 0 <==> r == n)) by (bit_vector)
        requires d > 0 && (d & ((d - 1) as usize)) == 0, r == n & !((d - 1) as usize);
}
pub broadcast proof fn lemma_rup(n: usize, d: usize)
    requires is_pow2(d),
    ensures
        #![trigger rup(n, d)]
        rup(n, d) >= n,
        rup(n, d) - n < d,
        rup(n, d) <= usize::MAX <==> n + d - 1 <= usize::MAX,
        rup(n, d) <= usize::MAX ==> aligned(rup(n, d) as usize, d),
        aligned(n, d) <==> rup(n, d) == n,
{
    if n + d - 1 <= usize::MAX {
        let x = (n + d - 1) as usize;
        let r = x & !((d - 1) as usize);
        assert(r >= n && r - n < d && (r & ((d - 1) as usize)) == 0 && ((n & ((d - 1) as usize)) == 0 <==> r == n)) by (bit_vector)
            requires d > 0 && (d & ((d - 1) as usize)) == 0, n <= 0xffff_ffff_ffff_ffffusize - (d - 1), x == n + (d - 1), r == x & !((d - 1) as usize);
    } else {
        assert((n & ((d - 1) as usize)) != 0) by (bit_vector)
            requires d > 0 && (d & ((d - 1) as usize)) == 0, n > 0xffff_ffff_ffff_ffffusize - (d - 1);
    }
}
/// aligned values are at least d apart
pub proof fn lemma_aligned_gap(a: usize, b: usize, d: usize)
    requires is_pow2(d), aligned(a, d), aligned(b, d), a < b,
    ensures b - a >= d
{
    assert(b - a >= d) by (bit_vector)
        requires d > 0 && (d & ((d - 1) as usize)) == 0, (a & ((d - 1) as usize)) == 0, (b & ((d - 1) as usize)) == 0, a < b;
}
/// rup is the *least* aligned value >= n, rdown the greatest <= n
pub proof fn lemma_rup_least(n: usize, d: usize, k: usize)
    requires is_pow2(d), aligned(k, d), k >= n,
    ensures rup(n, d) <= k
{
    lemma_rup(n, d);
    if n + d - 1 > usize::MAX {
        assert(false) by (bit_vector)
            requires d > 0 && (d & ((d - 1) as usize)) == 0, (k & ((d - 1) as usize)) == 0, k >= n, n > 0xffff_ffff_ffff_ffffusize - (d - 1);
    } else if rup(n, d) > k { lemma_aligned_gap(k, rup(n, d) as usize, d); }
}
pub proof fn lemma_rdown_greatest(n: usize, d: usize, k: usize)
    requires is_pow2(d), aligned(k, d), k <= n,
    ensures rdown(n, d) >= k
{
    lemma_rdown(n, d);
    if rdown(n, d) < k { lemma_aligned_gap(rdown(n, d), k, d); }
}
pub broadcast proof fn lemma_add_aligned(p: usize, s: usize, d: usize)
    requires is_pow2(d), aligned(p, d), aligned(s, d), p + s <= usize::MAX,
    ensures #[trigger] aligned((p + s) as usize, d)
{
    assert((((p + s) as usize) & ((d - 1) as usize)) == 0) by (bit_vector)
        requires d > 0 && (d & ((d - 1) as usize)) == 0, (p & ((d - 1) as usize)) == 0, (s & ((d - 1) as usize)) == 0, p + s <= 0xffff_ffff_ffff_ffffusize;
}
pub broadcast proof fn lemma_sub_aligned(p: usize, s: usize, d: usize)
    requires is_pow2(d), aligned(p, d), aligned(s, d), s <= p,
    ensures #[trigger] aligned((p - s) as usize, d)
{
    assert((((p - s) as usize) & ((d - 1) as usize)) == 0) by (bit_vector)
        requires d > 0 && (d & ((d - 1) as usize)) == 0, (p & ((d - 1) as usize)) == 0, (s & ((d - 1) as usize)) == 0, s <= p;
}
pub broadcast proof fn lemma_aligned_weaken(p: usize, big: usize, small: usize)
    requires is_pow2(big), is_pow2(small), small <= big, #[trigger] aligned(p, big),
    ensures #[trigger] aligned(p, small)
{
    assert((p & ((small - 1) as usize)) == 0) by (bit_vector)
        requires big > 0 && (big & ((big - 1) as usize)) == 0, small > 0 && (small & ((small - 1) as usize)) == 0, small <= big, (p & ((big - 1) as usize)) == 0;
}
pub broadcast proof fn lemma_aligned_zero(d: usize)
    ensures #[trigger] aligned(0, d)
{
    assert((0usize & ((d - 1) as usize)) == 0) by (bit_vector);
}
pub proof fn lemma_pow2_le16(m: usize)
    requires is_pow2(m), m <= 16
    ensures m == 1 || m == 2 || m == 4 || m == 8 || m == 16
{
    assert(m > 0 && (m & ((m - 1) as usize)) == 0 && m <= 16 ==> (m == 1 || m == 2 || m == 4 || m == 8 || m == 16)) by (bit_vector);
}
pub broadcast proof fn lemma_max_pow2(a: usize, b: usize)
    requires is_pow2(a), is_pow2(b)
    ensures is_pow2(#[trigger] umax(a, b))
{}
/// pow2 ordering: a smaller power of two divides a larger one => rup is monotone in the divisor
pub proof fn lemma_rup_mono(n: usize, small: usize, big: usize)
    requires is_pow2(small), is_pow2(big), small <= big,
    ensures rup(n, small) <= rup(n, big)
{
    lemma_rup(n, big); lemma_rup(n, small);
    if rup(n, big) <= usize::MAX {
        lemma_aligned_weaken(rup(n, big) as usize, big, small);
        lemma_rup_least(n, small, rup(n, big) as usize);
    }
}
/// aligned base: rounding up commutes with adding an aligned base
pub proof fn lemma_rup_shift(p: usize, s: usize, d: usize)
    requires is_pow2(d), aligned(p, d), p + s + d - 1 <= usize::MAX,
    ensures rup((p + s) as usize, d) == p + rup(s, d)
{
    lemma_rup(s, d); lemma_rup((p + s) as usize, d);
    if s + d - 1 <= usize::MAX && p + s + d - 1 <= usize::MAX {
        let a = (((p + s) as usize + (d - 1)) as usize) & !((d - 1) as usize);
        let b = ((s + (d - 1)) as usize) & !((d - 1) as usize);
        assert(a == p + b) by (bit_vector)
            requires d > 0 && (d & ((d - 1) as usize)) == 0, (p & ((d - 1) as usize)) == 0,
                p <= 0xffff_ffff_ffff_ffffusize - s, s <= 0xffff_ffff_ffff_ffffusize - (d - 1), p + s <= 0xffff_ffff_ffff_ffffusize - (d - 1),
                a == (((p + s) as usize + (d - 1)) as usize) & !((d - 1) as usize), b == ((s + (d - 1)) as usize) & !((d - 1) as usize);
    }
}

// ---- error type and panics -----------------------------------------------------------------
#[derive(Debug)]
pub struct AllocErr;
/// `oom()` and friends diverge (panic): assumed never to return
#[verifier::external_body]
pub fn oom<T>() -> T ensures false { panic!("out of memory") }
/// the panic inside new_chunk_memory_details sits on the path of the try_ methods: must be unreachable
#[verifier::external_body]
pub fn allocation_size_overflow<T>() -> T
    requires false,   // @ob C09,C19 allocation_size_overflow.unreachable_on_try_paths
{ panic!("requested allocation size overflowed") }

// ---- std Result/Option combinators missing from vstd (assumed specs, modelled on vstd's Option specs) ----
pub assume_specification<T, E, F: FnOnce(E) -> T>[ Result::<T, E>::unwrap_or_else ](r: Result<T, E>, f: F) -> (t: T)
    requires r is Err ==> f.requires((r->Err_0,)),
    ensures match r { Ok(v) => t == v, Err(e) => f.ensures((e,), t) };
pub broadcast proof fn lemma_pow2_aligned(p: usize, d: usize)
    requires #[trigger] is_pow2(p), is_pow2(d), d <= p,
    ensures #[trigger] aligned(p, d)
{
    assert((p & ((d - 1) as usize)) == 0) by (bit_vector)
        requires p > 0 && (p & ((p - 1) as usize)) == 0, d > 0 && (d & ((d - 1) as usize)) == 0, d <= p;
}
pub broadcast proof fn lemma_aligned_consts()
    ensures #[trigger] aligned(64, 16), aligned(48, 16), aligned(32, 16), aligned(16, 16), aligned(4096, 16), aligned(448, 16),
{
    assert(64usize & 15usize == 0) by (bit_vector);
    assert(48usize & 15usize == 0) by (bit_vector);
    assert(32usize & 15usize == 0) by (bit_vector);
    assert(16usize & 15usize == 0) by (bit_vector);
    assert(4096usize & 15usize == 0) by (bit_vector);
    assert(448usize & 15usize == 0) by (bit_vector);
}

pub assume_specification<T>[ bool::then_some ](b: bool, t: T) -> (r: Option<T>)
    ensures r == (if b { Some(t) } else { None::<T> });
pub assume_specification<T>[ Option::<Option<T>>::flatten ](o: Option<Option<T>>) -> (r: Option<T>)
    ensures r == (match o { Some(x) => x, None => None::<T> });
