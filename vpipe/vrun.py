"""Engine V driver: generate the Verus file(s) from /repo's working tree, run Verus, map errors to obligations."""
import json
import os
import re
import shutil
import subprocess
import sys
import time

HERE = os.path.dirname(os.path.abspath(__file__))
sys.path.insert(0, HERE)
import gen as G  # noqa: E402
from extract import ExtractError  # noqa: E402

VERIFY_KINDS = (
    'postcondition not satisfied', 'precondition not satisfied', 'assertion failed', 'invariant not satisfied',
    'possible arithmetic underflow/overflow', 'possible division by zero', 'possible bit shift underflow/overflow',
    'unable to prove post-condition of closure', 'unable to prove assertion', 'decreases not satisfied',
    'bitvector assertion not satisfied', 'loop invariant not', 'could not prove termination', 'recommendation not met',
    'possible truncation', 'cannot show invariant', 'invariant not satisfied at end of loop body', 'invariant not satisfied before loop',
)
UNDECIDED_KINDS = ('Resource limit (rlimit) exceeded', 'rlimit', 'timed out', 'solver')

TEMPLATES = {
    'arena': ('arena.vtmpl', 'src/lib.rs'),
    'rawvec': ('rawvec.vtmpl', 'src/collections/raw_vec.rs'),
    'vecpanic': ('vecpanic.vtmpl', 'src/collections/vec.rs'),
    'strbounds': ('strbounds.vtmpl', 'src/collections/string.rs'),
    'strretain': ('strretain.vtmpl', 'src/collections/string.rs'),
    'drainfilter': ('drainfilter.vtmpl', 'src/collections/vec.rs'),
    'intoiter': ('intoiter.vtmpl', 'src/collections/vec.rs'),
    'dedup': ('dedup.vtmpl', 'src/collections/vec.rs'),
    'vecops': ('vecops.vtmpl', 'src/collections/vec.rs'),
    'strops': ('strops.vtmpl', 'src/collections/string.rs'),
    'boxops': ('boxops.vtmpl', 'src/boxed.rs'),
    'lossy': ('lossy.vtmpl', 'src/collections/str/lossy.rs'),
}


class Undecided(Exception):
    pass


def parse_errors(stderr):
    """split Verus' human-readable diagnostics into blocks: (kind, message, primary (line), all line numbers mentioned)"""
    blocks = []
    cur = None
    for ln in stderr.split('\n'):
        m = re.match(r'^(error|warning|note)(\[E\d+\])?: (.*)$', ln)
        if m:
            cur = {'level': m.group(1), 'code': m.group(2), 'msg': m.group(3), 'lines': [], 'primary': None, 'text': [ln]}
            blocks.append(cur)
            continue
        if cur is None:
            continue
        cur['text'].append(ln)
        m = re.match(r'^\s*--> ([^:]+):(\d+):(\d+)', ln)
        if m and cur['primary'] is None:
            cur['primary'] = int(m.group(2))
            cur['file'] = m.group(1)
        m = re.match(r'^\s*(\d+) [|/]', ln)
        if m:
            cur['lines'].append(int(m.group(1)))
    return blocks


def run_verus(path, extra=(), timeout=900):
    cmd = ['verus', path, '--output-json', '--time', '--multiple-errors', '100', '--num-threads', '8'] + list(extra)
    t0 = time.time()
    p = subprocess.run(cmd, capture_output=True, text=True, timeout=timeout)
    dt = time.time() - t0
    try:
        j = json.loads(p.stdout)
    except Exception:
        j = None
    return {'cmd': ' '.join(cmd), 'json': j, 'stderr': p.stderr, 'rc': p.returncode, 'wall_s': dt}


def make_twin(text, functions):
    """vacuity twin: `proof { assert(false); }` as the first statement of every contracted function; each must FAIL"""
    lines = text.split('\n')
    twin_lines = {}
    # insert from the bottom so that line numbers above stay valid
    for f in sorted(functions, key=lambda f: -f['body_start']):
        # body_start is the line of the opening brace of the body (1-based) or the line before it
        k = f['body_start'] - 1
        while '{' not in lines[k]:
            k += 1
        o = lines[k].index('{')
        lines[k] = lines[k][:o + 1] + ' proof { assert(false); } /* @twin %s */' % f['name'] + lines[k][o + 1:]
        twin_lines[f['name']] = k + 1
    return '\n'.join(lines), twin_lines


def run_unit(unit, repo, outdir):
    """returns dict(status, failures, functions, obligations, ...).  Raises Undecided."""
    tmpl, src = TEMPLATES[unit]
    os.makedirs(outdir, exist_ok=True)
    G.REPO = repo
    try:
        g = G.Generator(os.path.join(HERE, tmpl), os.path.join(repo, src))
        text = g.generate()
    except ExtractError as e:
        raise Undecided('extraction: %s' % e)
    path = os.path.join(outdir, unit + '.rs')
    open(path, 'w').write(text)
    twin_text, twin_lines = make_twin(text, g.functions)
    tpath = os.path.join(outdir, unit + '_twin.rs')
    open(tpath, 'w').write(twin_text)
    # diffs real body -> rewritten body, for the reader
    with open(os.path.join(outdir, unit + '.bodies.txt'), 'w') as fh:
        for f in g.functions:
            fh.write('==== %s  (%s:%d-%d) rules=%s\n---- real\n%s\n---- rewritten\n%s\n\n' % (
                f['name'], f.get('src_file') or src, f['src_line'], f['src_end_line'], sorted(f['rules']), f['real_body'], f['rewritten']))

    from concurrent.futures import ThreadPoolExecutor
    with ThreadPoolExecutor(2) as ex:
        fut_main = ex.submit(run_verus, path)
        fut_twin = ex.submit(run_verus, tpath, ('--verify-only-module', 'arena'))
        main = fut_main.result()
        twin = fut_twin.result()
    open(os.path.join(outdir, unit + '.verus.stderr'), 'w').write(main['stderr'])
    open(os.path.join(outdir, unit + '_twin.verus.stderr'), 'w').write(twin['stderr'])
    if main['json'] is None:
        raise Undecided('verus produced no JSON (crash?): %s' % main['stderr'][-500:])
    json.dump(main['json'], open(os.path.join(outdir, unit + '.verus.json'), 'w'))
    vr = main['json'].get('verification-results', {})

    gen_lines = text.split('\n')
    ob_by_line = {o['gen_line']: o for o in g.obligations}
    fn_ranges = [(f['gen_start'], f['gen_end'], f) for f in g.functions]

    def fn_at(line):
        for a, b, f in fn_ranges:
            if a <= line <= b:
                return f
        return None

    failures, undecided = [], []
    for b in parse_errors(main['stderr']):
        if b['level'] != 'error':
            continue
        if b['msg'].startswith('aborting due to'):
            continue
        msg = b['msg']
        if any(k in msg for k in UNDECIDED_KINDS):
            undecided.append(msg + (' @%s' % b['primary'] if b['primary'] else ''))
            continue
        if b['code'] or not any(k in msg for k in VERIFY_KINDS):
            raise Undecided('verus rejected the generated file (not a verification failure): %s' % '\n'.join(b['text'][:12]))
        prim = b['primary']
        f = fn_at(prim) if prim else None
        tagged = [ob_by_line[l] for l in b['lines'] if l in ob_by_line]
        # explicit (non-implicit) tags win; the failing clause is the one labelled in the block
        expl = [o for o in tagged if not o.get('implicit')]
        impl_ = [o for o in tagged if o.get('implicit')]
        ob = (expl or tagged or [None])[0]
        if ob is not None and f is not None and not (f['gen_start'] <= ob['gen_line'] <= f['gen_end']):
            # a tagged requires of a shim / callee failed at a call site inside f: name the call site
            site = impl_[0]['id'] if impl_ else '%s@line%d' % (f['name'], prim - f['body_start'])
            ob = {'id': '%s<-%s' % (ob['id'], site), 'props': sorted(set(ob['props']) | set(impl_[0]['props'] if impl_ else []))}
        if ob is None and f is not None:
            ob = {'id': '%s.%s@line%d' % (f['name'], re.sub(r'\W+', '_', msg)[:40], prim - f['body_start']),
                  'props': sorted(set(f['props'] + ['C09'])) if 'overflow' in msg or 'underflow' in msg else f['props']}
        if ob is None:
            # failure outside any contracted function: prelude lemma / spec lemma
            ob = {'id': 'lemma@gen_line%s' % prim, 'props': ['*']}
        failures.append({'obligation': ob['id'], 'props': ob['props'], 'function': f['name'] if f else None,
                         'src': ('%s:%d-%d' % (f.get('src_file') or src, f['src_line'], f['src_end_line'])) if f else None,
                         'kind': msg, 'gen_line': prim,
                         'gen_text': gen_lines[prim - 1].strip() if prim else '', 'verus_output': '\n'.join(b['text'])})
    if undecided:
        raise Undecided('resource limit / solver trouble on: %s' % '; '.join(undecided))
    if vr.get('encountered-vir-error') or (vr.get('errors', 0) == 0 and not vr.get('success')):
        raise Undecided('verus error before verification: %s' % main['stderr'][-800:])
    if vr.get('errors', 0) > 0 and not failures:
        raise Undecided('verus reported %d errors but none could be parsed' % vr['errors'])

    # vacuity: every twin assertion must fail
    twin_failed_lines = set()
    for b in parse_errors(twin['stderr']):
        if b['level'] == 'error' and 'assertion failed' in b['msg'] and b['primary']:
            twin_failed_lines.add(b['primary'])
    vacuous = [n for n, l in twin_lines.items() if l not in twin_failed_lines]
    if vacuous:
        raise Undecided('vacuity guard: requires of %s look contradictory (assert(false) verified)' % vacuous)

    # per function smt stats
    stats = {}
    for m in main['json'].get('times-ms', {}).get('smt', {}).get('smt-run-module-times', []):
        for fb in m.get('function-breakdown', []):
            stats[fb['function'].split('::', 1)[-1]] = {'smt_ms': fb['time'], 'rlimit': fb['rlimit'], 'success': fb['success']}
    return {
        'unit': unit, 'generated_file': path, 'checker_cmd': main['cmd'],
        'verified': vr.get('verified'), 'errors': vr.get('errors'),
        'failures': failures,
        'functions': [{k: f.get(k) for k in ('name', 'src', 'src_file', 'src_line', 'src_end_line', 'sha256', 'props', 'rules')} for f in g.functions],
        'trusted_functions': g.trusted_fns,
        'obligations': g.obligations,
        'rule_log': g.rule_log, 'consts': g.consts,
        'smt_stats': stats,
        'wall_s': main['wall_s'], 'twin_wall_s': twin['wall_s'], 'twins_checked': len(twin_lines),
        'verus_version': main['json'].get('verus', {}).get('version'),
        'times_ms': {k: main['json']['times-ms'].get(k) for k in ('total',)} | {'smt_run': main['json']['times-ms'].get('smt', {}).get('smt-run')},
    }


def scan_trusted(paths):
    """mechanical scan for assumptions in prelude + templates"""
    found = []
    pat = re.compile(r'(assume_specification\s*(?:<[^\[]*>)?\s*\[\s*([^\]]+?)\s*\]|#\[verifier::external_body\]|\badmit\(\)|\bassume\(|#\[verifier::(?!external_body)[a-z_]+)')
    for p in paths:
        lines = open(p).read().split('\n')
        for i, l in enumerate(lines):
            if l.strip().startswith('//'):
                continue
            m = pat.search(l)
            if not m:
                continue
            if 'external_body' in m.group(0):
                # name of the next fn
                for j in range(i, min(i + 6, len(lines))):
                    mm = re.search(r'\bfn (\w+)', lines[j])
                    if mm:
                        found.append('external_body fn %s' % mm.group(1))
                        break
            elif m.group(2):
                found.append('assume_specification %s' % m.group(2))
            else:
                found.append('%s:%d: %s' % (os.path.basename(p), i + 1, m.group(0)))
    return found
