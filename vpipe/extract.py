"""Mechanical extraction of real function bodies from /repo/src/*.rs for Engine V (Verus).

Everything here is *textual and mechanical*: items are located by name with a comment/string aware
brace matcher, the body text is copied verbatim and then rewritten by the fixed rule table R1..R12
(DESIGN.md section 2.1).  Every rule that fires is logged, so the evidence can state exactly what the
verified text drops relative to the code that runs.

A lost anchor / unexpected construct raises ExtractError -> the check exits 2 (undecided), never 1.
"""
import re


class ExtractError(Exception):
    pass


# --------------------------------------------------------------------------------------------
# masking: same-length copy of the source with comments, string and char literals blanked out
# --------------------------------------------------------------------------------------------
def mask(src: str) -> str:
    out = list(src)
    i, n = 0, len(src)
    while i < n:
        c = src[i]
        if src.startswith('//', i):
            j = src.find('\n', i)
            j = n if j < 0 else j
            for k in range(i, j):
                out[k] = ' '
            i = j
        elif src.startswith('/*', i):
            depth, j = 1, i + 2
            while j < n and depth:
                if src.startswith('/*', j):
                    depth += 1; j += 2
                elif src.startswith('*/', j):
                    depth -= 1; j += 2
                else:
                    j += 1
            for k in range(i, j):
                if out[k] != '\n':
                    out[k] = ' '
            i = j
        elif c == '"':
            j = i + 1
            while j < n and src[j] != '"':
                j += 2 if src[j] == '\\' else 1
            for k in range(i + 1, j):
                if out[k] != '\n':
                    out[k] = ' '
            i = j + 1
        elif c == 'r' and re.match(r'r#*"', src[i:i + 8]) and (i == 0 or not (src[i - 1].isalnum() or src[i - 1] == '_')):
            m = re.match(r'r(#*)"', src[i:])
            close = '"' + m.group(1)
            j = src.find(close, i + m.end())
            j = n if j < 0 else j
            for k in range(i + m.end(), j):
                if out[k] != '\n':
                    out[k] = ' '
            i = j + len(close)
        elif c == "'":
            # char literal or lifetime
            m = re.match(r"'(\\.[^']*|[^\\'])'", src[i:])
            if m:
                for k in range(i + 1, i + m.end() - 1):
                    out[k] = ' '
                i += m.end()
            else:
                i += 1
        else:
            i += 1
    return ''.join(out)


def match_close(masked: str, open_pos: int) -> int:
    """index of the bracket closing the one at open_pos (masked text)."""
    pairs = {'{': '}', '(': ')', '[': ']'}
    o = masked[open_pos]
    c = pairs[o]
    depth = 0
    for k in range(open_pos, len(masked)):
        ch = masked[k]
        if ch == o:
            depth += 1
        elif ch == c:
            depth -= 1
            if depth == 0:
                return k
    raise ExtractError('unbalanced %r at %d' % (o, open_pos))


class Source:
    def __init__(self, path):
        self.path = path
        self.text = open(path).read()
        self.masked = mask(self.text)

    def line_of(self, pos):
        return self.text.count('\n', 0, pos) + 1

    # -- locate `impl ... {` blocks whose header matches a regex
    def impl_block(self, header_re):
        for m in re.finditer(r'(?m)^(?:unsafe )?impl\b(?:[^{;\[]|\[[^\]]*\])*\{', self.masked):
            hdr = self.masked[m.start():m.end() - 1]
            if re.search(header_re, ' '.join(hdr.split())):
                o = m.end() - 1
                return o, match_close(self.masked, o)
        raise ExtractError('impl block /%s/ not found in %s' % (header_re, self.path))

    def impl_block_containing(self, header_re, fn_name):
        """the impl block (several may share one header) that defines fn_name"""
        for m in re.finditer(r'(?m)^(?:unsafe )?impl\b(?:[^{;\[]|\[[^\]]*\])*\{', self.masked):
            hdr = self.masked[m.start():m.end() - 1]
            if re.search(header_re, ' '.join(hdr.split())):
                o = m.end() - 1
                c = match_close(self.masked, o)
                if re.search(r'\bfn ' + re.escape(fn_name) + r'\b', self.masked[o:c]):
                    return o, c
        raise ExtractError('no impl block /%s/ defines fn %s in %s' % (header_re, fn_name, self.path))

    def nested_impl_block(self, outer_range, header_re):
        """an `impl` block nested inside a function body (range of that body)"""
        lo, hi = outer_range
        for m in re.finditer(r'\bimpl\b[^{;]*\{', self.masked[lo:hi]):
            hdr = ' '.join(self.masked[lo + m.start():lo + m.end() - 1].split())
            if re.search(header_re, hdr):
                o = lo + m.end() - 1
                return o, match_close(self.masked, o)
        raise ExtractError('nested impl /%s/ not found' % header_re)

    def find_fn(self, name, within=None, want_depth=None, pick=None):
        """returns (sig_start, body_open, body_close) of `fn name` inside the index range `within`."""
        lo, hi = within if within else (0, len(self.masked))
        pat = re.compile(r'(?:pub(?:\([a-z]+\))? )?(?:const )?(?:unsafe )?fn ' + re.escape(name) + r'\b')
        hits = [m for m in pat.finditer(self.masked, lo, hi)]
        # keep only hits at the nesting depth of the container (+1 for impl)
        res = []
        for m in hits:
            depth = 0
            for ch in self.masked[lo:m.start()]:
                if ch == '{':
                    depth += 1
                elif ch == '}':
                    depth -= 1
            want = want_depth if want_depth is not None else (1 if within else 0)
            if depth == want:
                res.append(m)
        if pick is not None and len(res) > pick:
            res = [res[pick]]         # several cfg-alternatives of one function: the template names which one is compiled in the reference build
        if len(res) != 1:
            raise ExtractError('fn %s: expected exactly one definition, found %d in %s' % (name, len(res), self.path))
        m = res[0]
        # body open brace: first '{' at paren depth 0 after the signature (skip where-clauses)
        k = m.end()
        pd = 0
        while k < hi:
            ch = self.masked[k]
            if ch in '(<[':
                pd += 1 if ch != '<' else 0
                if ch == '(' or ch == '[':
                    pass
            if ch in ')]':
                pd -= 1
            if ch == '{' and pd == 0:
                break
            if ch == ';' and pd == 0:
                raise ExtractError('fn %s has no body' % name)
            k += 1
        return m.start(), k, match_close(self.masked, k)

    def fn_parts(self, name, within=None, want_depth=None, pick=None):
        s, o, c = self.find_fn(name, within, want_depth, pick)
        return {
            'name': name,
            'sig': self.text[s:o].strip(),
            'body': self.text[o:c + 1],
            'line': self.line_of(s),
            'end_line': self.line_of(c),
        }

    def struct_def(self, name):
        m = re.search(r'(?m)^((?:#\[[^\]]*\]\s*)*)(?:pub )?struct ' + re.escape(name) + r'\b[^;{(]*([{(;])', self.masked)
        if not m:
            raise ExtractError('struct %s not found' % name)
        attrs = self.text[m.start(1):m.end(1)]
        if m.group(2) == ';':
            return attrs, ''
        o = m.end() - 1
        c = match_close(self.masked, o)
        return attrs, strip_comments(self.text[o:c + 1], self.masked[o:c + 1])

    def const_expr(self, name):
        m = re.search(r'(?m)^(?:pub(?:\([a-z]+\))? )?const ' + re.escape(name) + r'\s*:\s*usize\s*=\s*', self.masked)
        if not m:
            raise ExtractError('const %s not found' % name)
        # up to the ';' at depth 0
        k = m.end()
        depth = 0
        while True:
            ch = self.masked[k]
            if ch in '({[':
                depth += 1
            elif ch in ')}]':
                depth -= 1
            elif ch == ';' and depth == 0:
                break
            k += 1
        return ' '.join(strip_comments(self.text[m.end():k], self.masked[m.end():k]).split())


def strip_comments(text, masked):
    """drop comments (positions where masked is blank but text is not, outside of string literals)."""
    out = []
    i, n = 0, len(text)
    while i < n:
        if text.startswith('//', i) and masked[i] == ' ':
            j = text.find('\n', i)
            j = n if j < 0 else j
            i = j
        elif text.startswith('/*', i) and masked[i] == ' ':
            depth, j = 1, i + 2
            while j < n and depth:
                if text.startswith('/*', j):
                    depth += 1; j += 2
                elif text.startswith('*/', j):
                    depth -= 1; j += 2
                else:
                    j += 1
            i = j
        else:
            out.append(text[i])
            i += 1
    s = ''.join(out)
    s = re.sub(r'[ \t]+\n', '\n', s)
    s = re.sub(r'\n{3,}', '\n\n', s)
    return s


# --------------------------------------------------------------------------------------------
# small expression helpers working on masked text
# --------------------------------------------------------------------------------------------
def split_args(text):
    """split a macro/function argument list on top-level commas (string aware)."""
    m = mask(text)
    args, depth, cur = [], 0, 0
    for k, ch in enumerate(m):
        if ch in '([{':
            depth += 1
        elif ch in ')]}':
            depth -= 1
        elif ch == ',' and depth == 0:
            args.append(text[cur:k]); cur = k + 1
    args.append(text[cur:])
    return [a.strip() for a in args if a.strip()]


def receiver_start(m, end):
    """m: masked text; end: index one past the receiver's last char. Walk back over a postfix
    expression (identifiers, `.`, `::`, balanced (...) / [...]), return its start index."""
    k = end
    while True:
        if k > 0 and m[k - 1] in ')]':
            # matching open
            close = m[k - 1]
            opn = '(' if close == ')' else '['
            depth = 0
            j = k - 1
            while j >= 0:
                if m[j] == close:
                    depth += 1
                elif m[j] == opn:
                    depth -= 1
                    if depth == 0:
                        break
                j -= 1
            if j < 0:
                raise ExtractError('unbalanced receiver')
            k = j
            # generic args `::<..>` before '('
            if k >= 1 and m[k - 1] == '>':
                j = k - 1
                depth = 0
                while j >= 0:
                    if m[j] == '>':
                        depth += 1
                    elif m[j] == '<':
                        depth -= 1
                        if depth == 0:
                            break
                    j -= 1
                if j >= 2 and m[j - 2:j] == '::':
                    k = j - 2
            continue
        j = k
        while j > 0 and (m[j - 1].isalnum() or m[j - 1] == '_'):
            j -= 1
        if j == k:
            return k
        k = j
        if k > 0 and m[k - 1] == '.':
            k -= 1
            continue
        if k > 1 and m[k - 2:k] == '::':
            k -= 2
            continue
        return k


class Rewriter:
    """applies the rule table to one body; logs which rules fired."""

    def __init__(self, cfg):
        self.cfg = cfg          # dict: w_funcs, footer_fields, kind ('bump'|'footer'|'free'|'iter')
        self.log = {}

    def fired(self, rule, n=1):
        if n:
            self.log[rule] = self.log.get(rule, 0) + n

    def sub(self, rule, pat, repl, text, flags=0):
        new, n = re.subn(pat, repl, text, flags=flags)
        self.fired(rule, n)
        return new

    # R6 -------------------------------------------------------------------------------
    def macros(self, b):
        out, i = '', 0
        pat = re.compile(r'\b(debug_assert_eq|debug_assert_ne|debug_assert|assert_eq|assert|matches)!\s*\(')
        while True:
            mm = mask(b)
            m = pat.search(mm, i)
            if not m:
                out += b[i:]
                break
            out += b[i:m.start()]
            o = m.end() - 1
            c = match_close(mm, o)
            args = split_args(b[o + 1:c])
            kind = m.group(1)
            if kind == 'matches':
                # matches!(e, pat if guard) is by definition `match e { pat if guard => true, _ => false }`
                out += '(match %s { %s => true, _ => false })' % (args[0], ', '.join(args[1:]))
                self.fired('R6:matches')
                i = c + 1
                continue
            fn = 'rt_debug_assert' if kind.startswith('debug') else 'rt_assert'
            if kind.endswith('_eq'):
                out += '%s((%s) == (%s))' % (fn, args[0], args[1])
            elif kind.endswith('_ne'):
                out += '%s((%s) != (%s))' % (fn, args[0], args[1])
            else:
                out += '%s(%s)' % (fn, args[0])
            self.fired('R6:' + kind)
            i = c + 1
        return out

    def expect_calls(self, b):
        """R6: `OPT.expect("msg")` -> `opt_expect(OPT)` (may panic; afterwards the value is there)"""
        while True:
            mm = mask(b)
            m = re.search(r'\.expect\s*\(', mm)
            if not m:
                return b
            o = m.end() - 1
            c = match_close(mm, o)
            rs = receiver_start(mm, m.start())
            b = b[:rs] + 'opt_expect(%s)' % b[rs:m.start()] + b[c + 1:]
            self.fired('R6:expect')

    # generic "replace call NAME(args)" helper ------------------------------------------
    def map_calls(self, b, name_re, fn, rule):
        """for every match of name_re immediately followed by '(' call fn(prefix_match, [args]) -> text"""
        i, out = 0, ''
        pat = re.compile(name_re + r'\s*\(')
        while True:
            mm = mask(b)
            m = pat.search(mm, i)
            if not m:
                out += b[i:]
                return out
            o = m.end() - 1
            c = match_close(mm, o)
            args = split_args(b[o + 1:c])
            rep = fn(m, args)
            if rep is None:
                out += b[i:c + 1]
            else:
                out += b[i:m.start()] + rep
                self.fired(rule)
            i = c + 1

    def method_to_fn(self, b, method, fnname, rule, extra_first=None):
        """RECV.method(args) -> fnname([extra_first,] RECV, args)"""
        while True:
            mm = mask(b)
            m = re.search(r'\.' + method + r'\s*\(', mm)
            if not m:
                return b
            o = m.end() - 1
            c = match_close(mm, o)
            rs = receiver_start(mm, m.start())
            recv = b[rs:m.start()]
            args = split_args(b[o + 1:c])
            parts = ([extra_first] if extra_first else []) + [recv] + args
            b = b[:rs] + '%s(%s)' % (fnname, ', '.join(parts)) + b[c + 1:]
            self.fired(rule)

    # R4: footer dereferences ---------------------------------------------------------------
    def footer_derefs(self, b):
        fields = self.cfg['footer_fields']
        guard = 0
        while True:
            guard += 1
            if guard > 500:
                raise ExtractError('R4 does not terminate')
            mm = mask(b)
            m = re.search(r'\.as_(?:ref|mut)\(\)', mm)
            if not m:
                return b
            rs = receiver_start(mm, m.start())
            recv = b[rs:m.start()].strip()
            rest = b[m.end():]
            # method on the footer
            mt = re.match(r'\s*\.(is_empty|as_raw_parts)\(\)', rest)
            if mt:
                b = b[:rs] + 'ChunkFooter::%s(w, %s)' % (mt.group(1), recv) + rest[mt.end():]
                self.fired('R4:footer-method')
                continue
            mt = re.match(r'\s*\.(\w+)\s*\.(set|replace)\s*\(', rest)
            if mt and mt.group(1) in fields:
                o = m.end() + mt.end() - 1
                c = match_close(mask(b), o)
                arg = b[o + 1:c]
                b = b[:rs] + 'footer_%s_%s(w, %s, %s)' % (mt.group(2), mt.group(1), recv, arg.strip()) + b[c + 1:]
                self.fired('R3:cell-' + mt.group(2))
                continue
            mt = re.match(r'\s*\.(\w+)\s*=(?!=)', rest)
            if mt and mt.group(1) in fields:
                # assignment through as_mut(): up to ';'
                semi = mask(rest).index(';', mt.end())
                val = rest[mt.end():semi].strip()
                b = b[:rs] + 'footer_set_%s(w, %s, %s)' % (mt.group(1), recv, val) + rest[semi:]
                self.fired('R3:field-assign')
                continue
            mt = re.match(r'\s*\.(\w+)(\s*\.get\(\))?', rest)
            if mt and mt.group(1) in fields:
                b = b[:rs] + 'footer_read(w, %s).%s' % (recv, mt.group(1)) + rest[mt.end():]
                self.fired('R4:footer-read')
                continue
            raise ExtractError('R4: unhandled footer dereference near: %r' % b[max(0, rs - 20):m.end() + 40])

    def aliases(self, b):
        """`let X = E.as_ref();` / `let X = { E.as_ref() };` / `let X = &E.as_ref().F;` -> substituted away."""
        # `{ E.as_ref() }.f` (an `unsafe { .. }` block used as a receiver) is `E.as_ref().f`
        b = self.sub('R4:block-receiver', r'\{\s*([\w.()]+?\.as_ref\(\))\s*\}(?=\.)', r'\1', b)
        while True:
            m = re.search(r'let (\w+) = (?:\{\s*)?([\w.()]+?)\.as_ref\(\)(?:\s*\})?;[ \t]*\n?', b)
            if m:
                name, e = m.group(1), m.group(2)
                head, tail = b[:m.start()], b[m.end():]
                tail = re.sub(r'(?<![\w.])' + re.escape(name) + r'\b(?=\s*\.)', e + '.as_ref()', tail)
                if re.search(r'(?<![\w.])' + re.escape(name) + r'\b(?!\s*[.(]|\.as_ref)', re.sub(re.escape(e + '.as_ref()'), '', tail)) and name != e:
                    raise ExtractError('R4: deref alias %s used as a value' % name)
                b = head + tail
                self.fired('R4:deref-alias')
                continue
            m = re.search(r'let (\w+) = &([\w.()]+?\.as_ref\(\)\.\w+);[ \t]*\n?', b)
            if m:
                name, e = m.group(1), m.group(2)
                head, tail = b[:m.start()], b[m.end():]
                tail = re.sub(r'(?<![\w.])' + re.escape(name) + r'\b', e, tail)
                b = head + tail
                self.fired('R4:cell-alias')
                continue
            return b

    # R13 ------------------------------------------------------------------------------------
    def desugar_combinators(self, b):
        kinds = self.cfg.get('desugar', {})
        if not kinds:
            return b
        guard = 0
        while True:
            guard += 1
            if guard > 50:
                raise ExtractError('R13 does not terminate')
            mm = mask(b)
            m = re.search(r'\.(and_then|map|map_err|unwrap_or_else|unwrap_or|filter)\s*\(', mm)
            if not m:
                return b
            name = m.group(1)
            o = m.end() - 1
            c = match_close(mm, o)
            arg = b[o + 1:c].strip()
            rs = receiver_start(mm, m.start())
            recv = b[rs:m.start()].strip()
            ty = kinds.get(name)
            cm = re.match(r'^(?:move\s+)?\|\s*([^|]*?)\s*\|\s*(.*)$', arg, re.S)
            if ty == 'auto' and cm:
                # Option's closure takes no argument, Result's takes the error
                ty = 'option' if cm.group(1).strip() == '' else 'result'
            if name == 'unwrap_or':
                if ty != 'option':
                    raise ExtractError('R13: unwrap_or on unknown type')
                rep = 'match %s { Some(v__) => v__, None => %s }' % (recv, arg)
            elif cm:
                pat, body = cm.group(1), cm.group(2).strip()
                pat = pat.split(':')[0].strip() or '_'
                if pat == '_':
                    pat = '_e__'
                if name == 'filter' and ty == 'option':
                    # Option::filter hands the closure a reference: `|&x| c` / `|x| c(*x)`
                    pat = pat.lstrip('&').strip()
                    rep = 'match %s { Some(%s) => (if %s { Some(%s) } else { None }), None => None }' % (recv, pat, body, pat)
                elif name == 'and_then' and ty == 'option':
                    rep = 'match %s { Some(%s) => %s, None => None }' % (recv, pat, body)
                elif name == 'map' and ty == 'option':
                    rep = 'match %s { Some(%s) => Some(%s), None => None }' % (recv, pat, body)
                elif name == 'map' and ty == 'result':
                    rep = 'match %s { Ok(%s) => Ok(%s), Err(e__) => Err(e__) }' % (recv, pat, body)
                elif name == 'map_err' and ty == 'result':
                    rep = 'match %s { Ok(v__) => Ok(v__), Err(%s) => Err(%s) }' % (recv, pat, body)
                elif name == 'unwrap_or_else' and ty == 'result':
                    rep = 'match %s { Ok(v__) => v__, Err(%s) => %s }' % (recv, pat, body)
                elif name == 'unwrap_or_else' and ty == 'option':
                    rep = 'match %s { Some(v__) => v__, None => %s }' % (recv, body)
                else:
                    raise ExtractError('R13: %s on undeclared receiver type' % name)
            elif name == 'unwrap_or_else' and ty == 'option' and re.match(r'^\w+$', arg):
                rep = 'match %s { Some(v__) => v__, None => %s() }' % (recv, arg)
            else:
                raise ExtractError('R13: cannot desugar .%s(%s)' % (name, arg[:40]))
            b = b[:rs] + '(' + rep + ')' + b[c + 1:]
            self.fired('R13:' + name)

    # R16: element-index abstraction for the raw-pointer loops of collections::Vec ----------------
    def vec_rules(self, b):
        """buffer pointers become element indices (base pointer = index 0); the SetLenOnDrop scope guard becomes a value whose
        pending write-back (its Drop) is made explicit at the end of the guarded block; calls into user code become
        callback shims that take the guard, so that their precondition can speak about the state an unwind would leave"""
        b = self.sub('R16:base-ptr', r'\bself\.as_mut_ptr\(\)', '(0usize)', b)
        b = self.sub('R16:len-call', r'\bself\.len\(\)', 'self.len', b)
        b = self.sub('R16:guard-new', r'SetLenOnDrop::new\(\s*&mut self\.len\s*\)', 'SetLenOnDrop::new(self.len)', b)
        b = self.sub('R16:ptr-offset', r'\b(\w+)\.offset\((-?\d+)\)', r'idx_offset(\1, \2)', b)
        b = self.sub('R16:for-underscore', r'\bfor _ in\b', 'for i__ in it__:', b)
        gname = None
        m = re.search(r'let mut (\w+) = SetLenOnDrop::new', b)
        if m:
            gname = m.group(1)
        if gname is None:
            raise ExtractError('R16: no SetLenOnDrop guard found')
        b = self.map_calls(b, r'(?<![\w.:])ptr::drop_in_place',
                           lambda m_, a: 'cb_drop_in_place(vs, %s, &%s)' % (a[0], gname), 'R16:callback-drop')
        b = self.sub('R16:callback-next', r'\bvalue\.next\(\)', 'cb_value_next(vs, &%s)' % gname, b)
        b = self.sub('R16:callback-last', r'\bvalue\.last\(\)', 'cb_value_last(vs, &%s)' % gname, b)
        b = self.map_calls(b, r'(?<![\w.:])ptr::write',
                           lambda m_, a: 'slot_write(vs, %s)' % ', '.join(a), 'R16:slot-write')
        b = self.map_calls(b, r'\bself\.reserve', lambda m_, a: 'self.reserve(vs, %s)' % a[0], 'R16:reserve')
        # the guard is dropped at the end of the block it was created in: make the write-back explicit there
        mm = mask(b)
        k = mm.index('let mut %s = SetLenOnDrop::new' % gname)
        # enclosing block: nearest '{' before k at lower depth
        depth, j = 0, k
        while j >= 0:
            if mm[j] == '}':
                depth += 1
            elif mm[j] == '{':
                if depth == 0:
                    break
                depth -= 1
            j -= 1
        c = match_close(mm, j)
        b = b[:c] + '    self.len = %s.local_len; /* R16: Drop of the SetLenOnDrop guard */\n        ' % gname + b[c:]
        self.fired('R16:guard-drop-explicit')
        return b


    # R22: collections::Vec element moves -- pointers are (buffer id, index) pairs into a ghost heap of token sequences --------
    # R34: consuming adapters over `slices.iter()` (a slice of slices) are their defining loops over the indices 0..len ----------------
    def slice_iter_folds(self, b):
        """`let N: usize = X.iter().map(|V| E).sum();`   == let mut N: usize = 0; for each V: N = N + (E)   (core: Sum for usize is
              fold(0, |a, b| a + b), with the caller's overflow checks -- so the `+` keeps its no-overflow obligation)
           `let N[: usize] = X.iter().fold(I, |A, V| B);` == let mut N = I; for each V: { let A = N; N = B }
           `X.iter().for_each(|V| { B });`                == for each V: { B }"""
        hdr = lambda x, v: 'for i__ in 0..%s.len() {\n            let %s = %s[i__];' % (x, v, x)
        b = self.sub('R34:map-sum', r'(?m)^(\s*)let (\w+): usize = (\w+)\.iter\(\)\.map\(\|(\w+)\| ([^|;{}]+)\)\.sum\(\);',
                     lambda m: '%slet mut %s: usize = 0;\n%s%s\n%s    %s = %s + (%s);\n%s}' % (m.group(1), m.group(2), m.group(1), hdr(m.group(3), m.group(4)), m.group(1), m.group(2), m.group(2), m.group(5).strip(), m.group(1)), b)
        while True:
            mm = mask(b)
            m = re.search(r'(?m)^(\s*)let (\w+)(: usize)? = (\w+)\.iter\(\)\.fold\(', mm)
            if not m:
                break
            o = m.end() - 1
            c_ = match_close(mm, o)
            args = split_args(b[o + 1:c_])
            cm = re.match(r'^\|(\w+), (\w+)\|\s*(.*)$', ', '.join(a.strip() for a in args[1:]), re.S) if len(args) >= 2 else None
            if not cm or not re.match(r'\s*;', b[c_ + 1:]):
                raise ExtractError('R34: unsupported fold shape: %s' % b[m.start():c_ + 1][:120])
            ind, name, ty, x = m.group(1), m.group(2), m.group(3) or ': usize', m.group(4)
            init = args[0].strip()
            init = init if re.search(r'[a-z]', init) else init + 'usize'
            rep = '%slet mut %s%s = %s;\n%s%s\n%s    let %s = %s;\n%s    %s = %s;\n%s}' % (ind, name, ty, init, ind, hdr(x, cm.group(2)), ind, cm.group(1), name, ind, name, cm.group(3).strip(), ind)
            e = c_ + 1 + re.match(r'\s*;', b[c_ + 1:]).end()
            b = b[:m.start()] + rep + b[e:]
            self.fired('R34:fold')
        while True:
            mm = mask(b)
            m = re.search(r'(?m)^(\s*)(\w+)\.iter\(\)\.for_each\(', mm)
            if not m:
                break
            o = m.end() - 1
            c_ = match_close(mm, o)
            cm = re.match(r'^\|(\w+)\|\s*(\{.*\})\s*$', b[o + 1:c_].strip(), re.S)
            if not cm or not re.match(r'\s*;', b[c_ + 1:]):
                raise ExtractError('R34: unsupported for_each shape: %s' % b[m.start():c_ + 1][:120])
            ind = m.group(1)
            rep = '%s%s\n%s    %s\n%s}' % (ind, hdr(m.group(2), cm.group(1)), ind, cm.group(2), ind)
            e = c_ + 1 + re.match(r'\s*;', b[c_ + 1:]).end()
            b = b[:m.start()] + rep + b[e:]
            self.fired('R34:for_each')
        return b

    def vecops_rules(self, b):
        c = self.cfg
        if c.get('must_forget_self'):
            # R37: a by-value `self` that is neither forgotten nor moved is dropped by Rust when the function returns; for the into_bump_*
            # conversions that Drop would release the buffer the result points into -- made explicit as a call whose `requires` is false
            # (only when `self` is never used as a whole VALUE: a body that moves it somewhere else -- `let this = self;`, `f(self)` -- is not judged here)
            if not re.search(r'\bmem::forget\(self\)|\bManuallyDrop::new\(self\)|\bvec_forget\(self\b', b) and not re.search(r'(?<![.\w&])self\b(?!\s*[.:\w])', b):
                k = b.index('{')
                b = b[:k + 1] + '\n        self_dropped_at_scope_end(); /* R37: implicit Drop of the by-value `self` */' + b[k + 1:]
                self.fired('R37:implicit-drop-of-self')
        if c.get('self_is_deref'):
            # the body is the receiver itself, coerced through Deref / DerefMut: the call of `deref` made explicit
            if re.sub(r'\s+', '', b) not in ('{self}',):
                raise ExtractError('self_is_deref: the body is not just `self`')
            b = '{\n        self.deref(hs)\n    }'
            self.fired('R39:deref-coercion')
        if c.get('slice_folds'):
            b = self.slice_iter_folds(b)
        if c.get('addr_arith'):
            # R36: IntoIter bookkeeping on ADDRESSES: `p as usize` is the address; core's wrapping subtractions are shims that give the
            # exact difference when it is representable; `self.len()` is ExactSizeIterator's default (lower bound of size_hint)
            b = self.sub('R36:addr', r'(?<![\w])\(self\.(\w+) as usize\)', r'p_addr(self.\1)', b)
            b = self.sub('R36:addr', r'\bself\.(\w+) as usize\b', r'p_addr(self.\1)', b)
            b = self.sub('R36:wrapping-sub', r'\b(p_addr\(self\.\w+\))\.wrapping_sub\(', r'usize_wrapping_sub(\1, ', b)
            b = self.sub('R36:wrapping-sub', r'\bisize::wrapping_sub\((\w+) as _, (\w+) as _\)', r'isize_wrapping_sub(p_addr(\1) as isize, p_addr(\2) as isize)', b)
            b = self.sub('R36:max_value', r'\bisize::max_value\(\)', 'isize::MAX', b)
            b = self.sub('R36:exact-len', r'\bself\.len\(\)', 'self.len(hs)', b)
            b = self.sub('R36:thread-heap', r'\bself\.next\(\)', 'self.next(hs)', b)
            b = self.sub('R36:min', r'\b(?:core::)?cmp::min\(', 'usize_min(', b)
            b = self.sub('R36:thread-heap', r'(?<![\w.])offset_from\(', 'offset_from(hs, ', b)
            b = self.sub('R36:raw-parts', r'(?<![\w.:])slice::from_raw_parts(?:_mut)?\(', 'slice_from_raw_parts(hs, ', b)
        # casts between pointer types are the identity on (buffer, index) pairs
        b = self.sub('R22:slice-len', r'\(\*other\)\.len\(\)', 'other.len()', b)
        b = self.sub('R22:raw-slice-ptr', r'\bother as \*const T\b', 'other.as_ptr()', b)
        b = self.sub('R2:ptr-cast', r'\s+as \*(?:mut|const) (?:i8|u8|_|T)\b', '', b)
        b = self.sub('R2:ptr-cast', r'\s+as _\b', '', b)
        b = self.sub('R17:bound-deref', r'\b(Included|Excluded)\(&(\w+)\)', r'\1(\2)', b)
        # the back-reference from a Drain to its vector becomes an explicit parameter `source_vec`
        b = self.sub('R22:vec-backref', r'(?m)^\s*vec: NonNull::from\(self\),\s*$', '', b)
        b = self.sub('R22:vec-backref', r'(?m)^\s*let (?:mut )?source_vec = self\.vec\.as_mut\(\);\s*$', '', b)
        b = self.sub('R22:vec-backref', r'(?m)^\s*let (?:mut )?vec = self\.vec\.as_mut\(\);\s*$', '', b)
        # bounds-checked / unchecked element addresses
        b = self.sub('R22:index-mut', r'let (\w+): \*mut T = &mut self\[(\w+)\];', r'let \1 = self.index_mut_ptr(hs, \2);', b)
        # R6': inside collection operations a panic is allowed only where std's documented behaviour panics (ghost Heap.allow_panic)
        b = self.sub('R6:assert-std', r'\brt_assert\(', 'rt_assert_std(hs, ', b)
        b = self.sub('R6:expect-std', r'\bopt_expect\(', 'opt_expect_std(hs, ', b)
        b = self.map_calls(b, r'\bself\.get_unchecked', lambda m_, a: 'self.get_unchecked_ptr(%s)' % a[0], 'R22:get_unchecked')
        # destructor of a whole slice
        # (a raw slice pointer bound from the vector's own slice -- `let X: *mut [T] = self.as_mut_slice();` -- is that slice; dropping it in one go while the
        # vector is still in use carries the C16 obligation that the length no longer covers those elements)
        b = self.sub('R22:raw-slice', r'\blet (\w+): \*mut \[T\] = self\.as_(?:mut_)?slice\(\);', r'let \1 = self.as_slice();', b)
        def _ds(m_, a):
            mm = re.match(r'^ptr::slice_from_raw_parts_mut\((.*)\)$', a[0].strip(), re.S)
            if not mm and re.match(r'^\w+$', a[0].strip()) and re.search(r'\blet %s = self\.as_slice\(\);' % a[0].strip(), b):
                return 'cb_drop_slice_live(hs, ds, %s, self.len)' % a[0].strip()
            if not mm:
                return None
            inner = split_args(mm.group(1))
            return 'cb_drop_slice(hs, ds, %s, %s)' % (inner[0], inner[1])
        b = self.map_calls(b, r'(?<![\w.:])ptr::drop_in_place', _ds, 'R22:drop-slice')
        # R16: the SetLenOnDrop scope guard becomes a value; its Drop (the write-back of the length) is made explicit; user code
        # that runs while the guard is alive (an element destructor) receives it: an unwind would store guard.local_len
        gm = re.search(r'let mut (\w+) = SetLenOnDrop::new\(\s*&mut self\.len\s*\)', b)
        if gm:
            b = self.map_calls(b, r'(?<![\w.:])ptr::drop_in_place', lambda m_, a: 'cb_drop_elem_guarded(hs, ds, %s, &%s)' % (a[0], gm.group(1)), 'R22:drop-elem')
        else:
            b = self.map_calls(b, r'(?<![\w.:])ptr::drop_in_place', lambda m_, a: 'cb_drop_elem(hs, ds, %s)' % a[0], 'R22:drop-elem')
        if gm:
            gname = gm.group(1)
            b = self.sub('R16:guard-new', r'SetLenOnDrop::new\(\s*&mut self\.len\s*\)', 'SetLenOnDrop::new(self.len)', b)
            # the loop counter is unused in the real code: name Verus' ghost iterator so that invariants can count ITERATIONS (it__.index)
            # instead of depending on how the range expression is written
            b = self.sub('R16:for-underscore', r'\bfor _ in\b', 'for i__ in it__:', b)
            mm = mask(b)
            k = mm.index('let mut %s = SetLenOnDrop::new' % gname)
            depth, j = 0, k
            while j >= 0:
                if mm[j] == '}':
                    depth += 1
                elif mm[j] == '{':
                    if depth == 0:
                        break
                    depth -= 1
                j -= 1
            cpos = match_close(mm, j)
            b = b[:cpos] + '    self.len = %s.local_len; /* R16: Drop of the SetLenOnDrop guard */\n        ' % gname + b[cpos:]
            self.fired('R16:guard-drop-explicit')
        # R23: `for PAT in ITER { BODY }` over a by-value iterator is by definition `loop { match ITER.next() { Some(PAT) => BODY, None => break } }`
        fm = re.search(r'\bfor (\w+) in (iter|iterator|range_slice)\s*\{', mask(b))
        if fm:
            o = fm.end() - 1
            cpos = match_close(mask(b), o)
            body = b[o + 1:cpos]
            src_it = fm.group(2) if fm.group(2) in ('iter', 'iterator') else fm.group(2) + '.iter()'     # a slice is iterated through `<[T]>::iter`
            b = (b[:fm.start()] + 'let mut %s__it = %s;\n        loop {\n            match %s__it.next() {\n                Some(%s) => {%s}\n                None => { break; }\n            }\n        }'
                 % (fm.group(2), src_it, fm.group(2), fm.group(1), body) + b[cpos + 1:])
            self.fired('R23:for-over-iterator')
        fm = re.search(r'\bfor (\w+) in (decode_utf16_model\([^{]*?\))\s*\{', mask(b))
        if fm:
            o = fm.end() - 1
            cpos = match_close(mask(b), o)
            body = b[o + 1:cpos]
            b = (b[:fm.start()] + 'let mut dec__it = %s;\n        loop {\n            match dec__it.next() {\n                Some(%s) => {%s}\n                None => { break; }\n            }\n        }'
                 % (b[fm.start(2):fm.end(2)], fm.group(1), body) + b[cpos + 1:])
            self.fired('R23:for-over-iterator')
        # raw pointer primitives
        b = self.map_calls(b, r'(?<![\w.:])ptr::write', lambda m_, a: 'buf_write(hs, %s)' % ', '.join(a), 'R22:ptr-write')
        b = self.sub('R22:rawvec-read', r'(?<![\w.:])ptr::read\(&(self(?:__)?)\.buf\)', r'rawvec_read(&\1.buf)', b)
        b = self.map_calls(b, r'(?<![\w.:])ptr::read', lambda m_, a: 'buf_read(hs, %s)' % ', '.join(a), 'R22:ptr-read')
        b = self.map_calls(b, r'(?<![\w.:])ptr::replace', lambda m_, a: 'buf_replace(hs, %s)' % ', '.join(a), 'R22:ptr-replace')
        b = self.map_calls(b, r'(?<![\w.:])ptr::copy_nonoverlapping', lambda m_, a: 'buf_copy_nonoverlapping(hs, %s)' % ', '.join(a), 'R22:ptr-copy_nonoverlapping')
        b = self.map_calls(b, r'(?<![\w.:])ptr::copy', lambda m_, a: 'buf_copy(hs, %s)' % ', '.join(a), 'R22:ptr-copy')
        b = self.map_calls(b, r'(?<![\w.:])slice::from_raw_parts(?:_mut)?', lambda m_, a: 'slice_from_raw_parts(hs, %s)' % ', '.join(a), 'R22:from_raw_parts')
        b = self.map_calls(b, r'(?<![\w.:])arith_offset', lambda m_, a: 'p_byte_offset(%s)' % ', '.join(a), 'R22:arith_offset')
        b = self.method_to_fn(b, 'add', 'p_add', 'R22:ptr-add', extra_first='hs')
        b = self.method_to_fn(b, 'offset', 'p_offset', 'R22:ptr-offset', extra_first='hs')
        b = self.method_to_fn(b, 'is_null', 'p_is_null', 'R22:is_null')
        b = self.sub('R22:ptr-eq', r'\b(self\.(?:ptr|end)) == (self\.(?:ptr|end))\b', r'p_eq(\1, \2)', b)
        b = self.sub('R22:zeroed', r'\bmem::zeroed\(\)', 'zst_value()', b)
        b = self.map_calls(b, r'(?<![\w.:])mem::replace', lambda m_, a: 'vec_replace(%s)' % ', '.join(a) if a and a[0] == 'self' else None, 'R22:replace')
        b = self.sub('R22:forget', r'\bmem::forget\(self\)', 'vec_forget(self)', b)
        b = self.sub('R8:size_of-T', r'\bmem::size_of::<\s*T\s*>\(\)', 'ELEM_SIZE()', b)
        # model types
        b = self.sub('R22:model-type', r'(?<![\w:])Vec::with_capacity_in\(', 'VecM::with_capacity_in(', b)
        b = self.sub('R22:model-type', r'(?<![\w:])RawVec::with_capacity_in\(', 'RawVecM::with_capacity_in(', b)
        b = self.sub('R22:model-type', r'(?<![\w:])Vec \{', 'VecM {', b)
        b = self.sub('R22:model-type', r'(?<![\w:])Splice \{', 'SpliceM {', b)
        b = self.sub('R1:phantom', r'\b\w+\s*:\s*PhantomData\s*,?', '', b)
        # `self.for_each(drop)` is by definition: call next() until None, dropping every item
        extra = ', Ghost(*source_vec)' if c.get('drain_drop') else (', pl, vec' if c.get('dfilter') else '')
        b = self.sub('R19:for_each-drop', r'\bself\.for_each\(drop\);',
                     'loop {\n            match self.next(hs%s) {\n                Some(x__) => {\n                    elem_drop(ds, x__);\n                }\n                None => { break; }\n            }\n        }' % extra, b)
        if c.get('dfilter'):
            # R31: DrainFilter over the heap model: the borrowed vector is the explicit parameter `vec`, the user predicate a callback shim whose
            # results are appended to a ghost log, slice indexing `&v[i]` an element address of the slice
            b = self.sub('R31:vec-backref', r'\bself\.vec\.', 'vec.', b)
            b = self.sub('R31:callback', r'\(self\.pred\)\(&mut v\[(\w+)\]\)', r'cb_pred(pl, hs, v.at(\1))', b)
            b = self.sub('R31:slot-addr', r'let (\w+): \*(?:const|mut) T = &(?:mut )?v\[([^\]]+)\];', r'let \1 = v.at(\2);', b)
            b = self.sub('R31:slot-addr', r'&(?:mut )?v\[([^\]]+)\]', r'v.at(\1)', b)
            b = self.method_to_fn(b, 'sub', 'p_sub', 'R31:ptr-sub', extra_first='hs')
            b = self.sub('R19:for_each-drop', r'\bself\.for_each\(drop\);',
                         'loop {\n            match self.next(hs, pl, vec) {\n                Some(x__) => {\n                    elem_drop(ds, x__);\n                }\n                None => { break; }\n            }\n        };', b)
            # constructor: the borrowed vector and the predicate are not fields of the model; two ghost fields record the original contents
            b = self.sub('R31:ctor', r'(?m)^\s*vec: self,\s*$', '            orig: Ghost(hs.buf(self.buf.b@).subrange(0, old_len as int)), base: Ghost(pl.res@.len()),', b)
            b = self.sub('R31:ctor', r'(?m)^\s*pred: filter,\s*$', '', b)
            b = self.sub('R31:model-type', r'(?<![\w:])DrainFilter \{', 'DrainFilterM {', b)
            b = self.sub('R31:retain', r'\bself\.drain_filter\(\|x\| !f\(x\)\);', '{ let mut df__ = self.drain_filter(hs, pl); df__.drop(hs, ds, pl, self); }', b)
        if c.get('splice_drop'):
            # R30: Splice::drop.  `self.drain.by_ref().for_each(drop)` is by definition: next() until None, dropping every item; the
            # Drain's back-pointer to its Vec is the explicit parameter `vec`; `by_ref()` hands the callee the remaining items; the field
            # `drain` is dropped when Splice::drop returns (Drop glue): made explicit before every `return` and at the end
            b = self.sub('R19:for_each-drop', r'\bself\.drain\.by_ref\(\)\.for_each\(drop\);',
                         'loop {\n            match self.drain.next(hs, Ghost(*vec)) {\n                Some(x__) => {\n                    elem_drop(ds, x__);\n                }\n                None => { break; }\n            }\n        };', b)
            b = self.sub('R22:vec-backref', r'(?m)^\s*let (?:mut )?vec = self\.drain\.vec\.as_mut\(\);\s*$', '', b)
            b = self.sub('R22:vec-backref', r'\bself\.drain\.vec\.as_mut\(\)\.', 'vec.', b)
            b = self.sub('R22:vec-backref', r'\bself\.drain\.vec\.as_ref\(\)\.', 'vec.', b)
            b = self.sub('R30:drop-glue', r'\breturn;', '{ self.drain.drop(hs, ds, vec); return; }', b)
            k = b.rindex('}')
            b = b[:k] + '    self.drain.drop(hs, ds, vec); /* R30: Drop glue of the field `drain` */\n    ' + b[k:]
            b = self.sub('R30:into-itm', r'\bcollected\.into_iter\(\)', 'vec_into_itm(hs, collected)', b)
            # Drop glue of the temporary `collected` Vec: if it is not consumed by `into_iter()`, `Vec::drop` runs on it where its block ends
            if re.search(r'let mut collected = Vec(?:M)?::new_in', b) and 'vec_into_itm(hs, collected)' not in b:
                mm = mask(b)
                k0 = re.search(r'let mut collected = Vec(?:M)?::new_in', mm).start()
                depth, j = 0, k0
                while j >= 0:
                    if mm[j] == '}':
                        depth += 1
                    elif mm[j] == '{':
                        if depth == 0:
                            break
                        depth -= 1
                    j -= 1
                cpos = match_close(mm, j)
                b = b[:cpos] + '    collected.drop(hs, ds); /* R30: Drop glue of the local `collected` */\n        ' + b[cpos:]
                self.fired('R30:drop-glue-local')
            b = self.map_calls(b, r'\bself\.drain\.fill', lambda m_, a: 'self.drain.fill(hs, vec, %s)' % ', '.join(a), 'R12:thread-heap')
            b = self.map_calls(b, r'\bself\.drain\.move_tail', lambda m_, a: 'self.drain.move_tail(hs, vec, %s)' % ', '.join(a), 'R12:thread-heap')
        # R12: thread the ghost heap through the calls that take it
        thread = lambda extra: (lambda m_, a: None if (a and a[0] == 'hs') else '%s(%s)' % (m_.group(0).rstrip('(').rstrip(), ', '.join(extra + a)))
        for name in ['reserve', 'cap', 'capacity', 'append_elements', 'extend_from_slice_copy_unchecked', 'extend_from_slice_copy', 'extend_from_slice',
                     'set_len', 'push', 'extend', 'insert', 'remove', 'swap_remove', 'split_off', 'pop', 'append',
                     'reserve_exact', 'try_reserve', 'try_reserve_exact', 'shrink_to_fit', 'extend_with', 'resize', 'drain']:
            b = self.map_calls(b, r'(?<![\w:])[a-z_][\w.]*\.%s' % name, thread(['hs']), 'R12:thread-heap')
        for name in ['VecM::with_capacity_in', 'RawVecM::with_capacity_in']:
            b = self.map_calls(b, r'\b%s' % name, thread(['hs']), 'R12:thread-heap')
        for name in ['truncate', 'clear']:
            b = self.map_calls(b, r'(?<![\w:])[a-z_][\w.]*\.%s' % name, thread(['hs', 'ds']), 'R12:thread-heap')
        # R35: dedup family.  The worker `partition_dedup_by` is a contract here (proved in unit `dedup`); the user's comparison is the
        # uninterpreted relation `same`, and for dedup_by_key / dedup the closure handed on must be, textually, the one that defines the
        # relation std documents for them (anything else is not decided here)
        b = self.sub('R35:worker', r'(?<![\w.:])partition_dedup_by\((.*), same_bucket\)', r'partition_dedup_by(hs, \1)', b)
        b = self.sub('R35:as-slice', r'\bself\.as_mut_slice\(\)', 'self.as_slice()', b)
        if c.get('closure_rel'):
            want = c['closure_rel'].replace('~', ' ')
            m = re.search(r'\bself\.dedup_by\((\|a, b\| [^()]*(?:\([^()]*\)[^()]*)*)\)', b)
            if not m or m.group(1).strip() != want:
                raise ExtractError('R35: the closure handed to dedup_by is not `%s`' % want)
            b = b[:m.start()] + 'self.dedup_by(hs, ds) /* R35: the relation `same` is %s */' % want + b[m.end():]
            self.fired('R35:closure-is-the-relation')
        b = self.sub('R22:slice-cloned-iter', r'\bother\.iter\(\)\.cloned\(\)', 'slice_cloned_iter(hs, other)', b)
        b = self.sub('R22:cloned-items', r'\biter\.into_iter\(\)\.cloned\(\)', 'iter.into_iter()', b)      # a copy of a token is the token
        b = self.sub('R22:slice-index', r'\b(?:Index::index|IndexMut::index_mut)\(&(?:mut )?\*\*self, index\)', 'slice_index(hs, self.deref(hs), index)', b)
        b = self.sub('R22:slice-eq', r'\bself\[\.\.\] == other\[\.\.\]', 'slice_eq(hs, self.deref(hs), other.deref(hs))', b)
        b = self.sub('R22:slice-hash', r'\bHash::hash\(&\*\*self, (\w+)\)', r'slice_hash(hs, self.as_slice(), \1, hl)', b)
        b = self.sub('R22:slice-cloned-iter', r'\bself\.iter\(\)\.cloned\(\)', 'slice_cloned_iter(hs, self.as_slice())', b)
        b = self.sub('R22:full-range-index', r'(?m)^(\s*)&(?:mut )?self\[\.\.\]\s*$', r'\1slice_index_full(hs, self.deref(hs))', b)
        b = self.sub('R22:model-type', r'(?<![\w:])Vec::new_in\(', 'VecM::new_in(hs, ', b)
        b = self.sub('R22:use-stmt', r'(?m)^\s*use crate::boxed::Box;\s*$', '', b)
        b = self.sub('R22:rawvec-into-box', r'\b(\w+)\.into_box\(\)', r'RawVecM::into_box(hs, \1)', b)
        b = self.sub('R22:box-from-raw', r"let (\w+): Box<'bump, \[T\]> = Box::from_raw\((\w+)\);", r'let \1: BoxSliceM = box_slice_from_raw(hs, \2);', b)
        b = self.sub('R22:model-type', r'(?<![\w:])Vec::from_iter_in\(', 'VecM::from_iter_in(hs, ', b)
        b = self.sub('R22:model-type', r'(?<![\w:])RawVec::new_in\(', 'RawVecM::new_in(hs, ', b)
        b = self.sub('R22:model-type', r'(?<![\w:])RawVec::from_raw_parts_in\(', 'RawVecM::from_raw_parts_in(hs, ', b)
        b = self.sub('R22:model-type', r'(?<![\w:])Vec::from_raw_parts_in\(', 'VecM::from_raw_parts_in(hs, ', b)
        b = self.sub('R22:model-type', r'(?<![\w:])ExtendElement\(', 'ExtendElement(', b)
        b = self.sub('R22:clone-token', r'\bself\.0\.clone\(\)', 'elem_clone(&e.0)', b)
        b = self.sub('R22:self-is-param', r'\bself\.0\b', 'e.0', b)
        b = self.sub('R16:callback-next', r'\bvalue\.next\(\)', 'VecM::ee_next(&mut value)', b)
        b = self.sub('R16:callback-last', r'\bvalue\.last\(\)', 'VecM::ee_last(value)', b)
        for name in ['v.extend', 'self.extend_with', 'self.buf.try_reserve_exact', 'self.buf.try_reserve', 'self.buf.reserve_exact', 'self.buf.shrink_to_fit']:
            b = self.map_calls(b, r'(?<![\w.])%s' % re.escape(name), thread(['hs']), 'R12:thread-heap')
        return b


    # R25: collections::String -- the text is the byte view of its Vec<u8>; std's str functions on the text become shims ----------
    def strops_rules(self, b):
        b = self.sub('R25:char-at', r'\bself\[(\w+)\.\.\]\.chars\(\)\.next\(\)', r'self.char_at(hs, \1)', b)
        b = self.sub('R25:char-at-unchecked', r'(?:unsafe\s*)?\{?\s*self\.get_unchecked\((\w[\w.]*)\.\.(\w+)\)\s*\}?\.chars\(\)\.next\(\)\.(?:unwrap|unwrap_unchecked)\(\)',
                     r'self.char_at_unchecked(hs, \1, \2)', b)
        # a temporary Splice dropped at the end of its statement: its Drop (and the Drop glue of its Drain) made explicit
        b = self.sub('R25:temp-splice-drop', r'\{ self\.as_mut_vec\(\) \}\.splice\((\w+), (\w+)\.bytes\(\)\);',
                     r'{ let mut sp__ = self.vec.splice(hs, \1, str_bytes_iter(hs, \2)); sp__.drop(hs, ds, &mut self.vec); }', b)
        b = self.sub('R25:last-char', r'\bself\.chars\(\)\.rev\(\)\.next\(\)', 'self.last_char(hs)', b)
        b = self.sub('R25:slice-chars', r'\bself\[(\w+)\.\.(\w+)\]\.chars\(\)', r'self.slice_chars(hs, \1, \2)', b)
        b = self.sub('R25:empty-chars', r'""\.chars\(\)', 'empty_chars()', b)      # the chars of the empty literal: nothing to decode
        # `s[a..]` is `s[a..s.len()]`, `s[..b]` is `s[0..b]` (core's RangeFrom / RangeTo indexing of str)
        b = self.sub('R25:slice-chars', r'\bself\[(\w+)\.\.\]\.chars\(\)', r'self.slice_chars(hs, \1, self.len())', b)
        b = self.sub('R25:slice-chars', r'\bself\[\.\.(\w+)\]\.chars\(\)', r'self.slice_chars(hs, 0, \1)', b)
        b = self.sub('R25:is_char_boundary', r'\bself\.is_char_boundary\(', 'self.is_char_boundary(hs, ', b)
        b = self.sub('R25:len_utf8', r'\b(\w+)\.len_utf8\(\)', r'char_len_utf8(\1)', b)
        b = self.sub('R25:decode_utf16', r'\bdecode_utf16\(v\.iter\(\)\.cloned\(\)\)', 'decode_utf16_model(&v)', b)
        b = self.sub('R25:model-type', r'\bFromUtf16Error\(\(\)\)', 'FromUtf16Error', b)
        b = self.map_calls(b, r'\bret\.push', lambda m_, a: 'ret.push(hs, %s)' % a[0], 'R12:thread-heap')
        b = self.sub('R25:char-as-u8', r'\b(\w+) as u8\b', r'char_as_u8(\1)', b)
        b = self.sub('R25:panic', r'\bpanic!\([^;]*?\)(?=\s*[,;}])', 'rt_panic_std(hs)', b)
        # `let X = OPT?;` in a function returning Option is by definition `match OPT { Some(v) => v, None => return None }`
        b = self.sub('R13:question-mark', r'let (\w+) = ([^;?]+)\?;', r'let \1 = match \2 { Some(v__) => v__, None => { return None; } };', b)
        # the 4-byte scratch array of encode_utf8 becomes a scratch buffer of the ghost heap (argument hoisted: evaluation order kept)
        b = self.sub('R25:encode-hoist', r'(self\.vec\.extend_from_slice)\(ch\.encode_utf8\(&mut \[0; 4\]\)\.as_bytes\(\)\)',
                     r'{ let enc__ = encode_utf8_bytes(hs, ch); \1(enc__) }', b)
        b = self.sub('R25:encode-scratch', r'(?m)^\s*let mut bits = \[0; 4\];\s*$', '', b)
        b = self.sub('R25:encode', r'\bch\.encode_utf8\(&mut bits\)\.as_bytes\(\)', 'encode_utf8_bytes(hs, ch)', b)
        # std's str constructors over the byte vector; `mem::transmute` of a `&str` to another lifetime is the identity
        b = self.sub('R25:str-from-utf8', r'(?<![\w:])str::from_utf8_unchecked\(&self\.vec\)', 'str_from_utf8_unchecked(hs, &self.vec)', b)
        b = self.sub('R25:str-from-utf8', r'(?<![\w:])str::from_utf8\(&vec\)', 'str_from_utf8(hs, &vec)', b)
        b = self.sub('R25:as-str', r'\bself\.as_str\(\)', 'self.deref(hs)', b)
        b = self.map_calls(b, r"\bmem::transmute(?:::<&str, &'bump str>)?", lambda m_, a: a[0] if len(a) == 1 else None, 'R25:transmute-lifetime')
        b = self.sub('R12:thread-heap', r'\bself\.vec\.clone\(\)', 'self.vec.clone(hs)', b)
        b = self.sub('R12:thread-heap', r'\.split_at\(', '.split_at(hs, ', b)
        b = self.sub('R12:thread-heap', r'\bself\.vec\.copy_from_slice\(', 'self.vec.copy_from_slice(hs, ', b)
        b = self.sub('R25:source-len', r'\bsource\.len\(\)', 'source.vec.len()', b)
        b = self.sub('R12:thread-heap', r'\bself\.vec\.clone_from\(', 'self.vec.clone_from(hs, ds, ', b)
        b = self.sub('R25:forget', r'\bmem::forget\(self\)', 'vec_forget(self.vec)', b)
        b = self.sub('R25:ok-pattern', r'\bOk\(\.\.\) =>', 'Ok(_) =>', b)
        b = self.sub('R12:thread-heap', r'\bself\.vec\.capacity\(\)', 'self.vec.capacity(hs)', b)
        # forwards to str's own trait methods on the whole text (`&self[..]`, `&**self`, `**self` are the Deref)
        b = self.sub('R25:str-forward', r'\bPartialEq::eq\(&self\[\.\.\], &other\[\.\.\]\)', 'str_partial_eq(hs, self.deref(hs), other.deref(hs))', b)
        b = self.sub('R25:str-forward', r'\bfmt::(Display|Debug)::fmt\(&\*\*self, (\w+)\)', lambda m: 'str_fmt_%s(hs, self.deref(hs), %s, cl)' % (m.group(1).lower(), m.group(2)), b)
        b = self.sub('R25:str-forward', r'\(\*\*self\)\.hash\((\w+)\)', r'str_hash(hs, self.deref(hs), \1, cl)', b)
        b = self.sub('R25:str-forward', r'\b(\w+)\.write_str\(self\)', r'formatter_write_str(hs, self.deref(hs), \1, cl)', b)
        b = self.sub('R25:str-forward', r'\bself\.vec\.hash\((\w+)\)', r'bytes_hash(hs, self.vec.as_slice(), \1, cl)', b)
        b = self.sub('R25:str-index', r'&(?:mut )?self\[\.\.\]\[index\]', 'str_index(hs, self.deref(hs), index)', b)
        b = self.sub('R25:str-index', r'\b(?:Index::index|IndexMut::index_mut)\(&(?:mut )?\*\*self, index\)', 'str_index(hs, self.deref(hs), index)', b)
        b = self.sub('R25:str-from-utf8', r'(?<![\w:])str::from_utf8_unchecked_mut\(&mut \*self\.vec\)', 'str_from_utf8_unchecked(hs, &self.vec)', b)
        # `&self[..]` / `&mut self[..]` as the whole body: by definition the call of Index<RangeFull>::index / IndexMut::index_mut (both under contract)
        b = self.sub('R25:full-range-index', r'(?m)^(\s*)&self\[\.\.\]\s*$', r'\1self.index_full(hs)', b)
        b = self.sub('R25:full-range-index', r'(?m)^(\s*)&mut self\[\.\.\]\s*$', r'\1self.index_mut_full(hs)', b)
        b = self.sub('R25:bytes-of-vec', r'(?m)^(\s*)&self\.vec\s*$', r'\1self.vec.deref(hs)', b)
        b = self.sub('R25:err-bytes', r'(?m)^(\s*)self\.bytes\s*$', r'\1e.bytes', b)
        b = self.sub('R25:owned-item', r'\bself\.push_str\(&s\)', 'self.push_str(s)', b)
        b = self.sub('R25:cloned-chars', r'\bself\.extend\(iter\.into_iter\(\)\.cloned\(\)\)', 'self.extend_chars(hs, iter.into_iter())', b)
        for name in ['push_str', 'push', 'reserve']:
            b = self.map_calls(b, r'\bself\.%s' % name, lambda m_, a, name=name: None if (a and a[0] == 'hs') else 'self.%s(%s)' % (name, ', '.join(['hs'] + a)), 'R12:thread-heap')
        # model types / constructors
        b = self.sub('R25:model-type', r'(?<![\w:])String::new_in\(', 'StringM::new_in(hs, ', b)
        b = self.sub('R25:model-type', r'(?<![\w:])String::from_iter_in\(', 'StringM::from_iter_in(hs, ', b)
        b = self.sub('R12:thread-heap', r'\bs\.push\(c\)', 's.push(hs, c)', b)
        b = self.sub('R25:model-type', r'(?<![\w:])String::with_capacity_in\(', 'StringM::with_capacity_in(hs, ', b)
        b = self.sub('R25:model-type', r'(?<![\w:])String::from_utf8_unchecked\(', 'StringM::from_utf8_unchecked(Ghost(*hs), ', b)
        b = self.sub('R25:model-type', r'(?<![\w:])String \{', 'StringM {', b)
        b = self.sub('R25:model-type', r'(?<![\w:])Drain \{', 'StrDrain {', b)
        # the Drain's back-pointer to its String becomes the explicit parameter `self_vec`
        b = self.sub('R25:string-backref', r'(?m)^\s*let self_ptr = self as \*mut _;\s*$', '', b)
        b = self.sub('R25:string-backref', r'(?m)^\s*string: self_ptr,\s*$', '', b)
        b = self.sub('R25:string-backref', r'(?m)^\s*let self_vec = \(\*self\.string\)\.as_mut_vec\(\);\s*$', '', b)
        # a temporary vec::Drain dropped at the end of its statement: its Drop made explicit
        b = self.sub('R25:temp-drain-drop', r'\bself_vec\.drain\(([^;]*?)\.\.([^;]*)\);',
                     r'{ let mut d__ = self_vec.drain(hs, RangeM { start: Included(\1), end: Excluded(\2) }); d__.drop(hs, ds, self_vec); }', b)
        # R12: thread the ghost heap (and the destructor log) through the Vec<u8> calls
        b = self.map_calls(b, r'\bself\.insert_bytes', lambda m_, a: None if (a and a[0] == 'hs') else 'self.insert_bytes(%s)' % ', '.join(['hs'] + a), 'R12:thread-heap')
        return b


    # R27: boxed::Box -- cells, owners, destructor runs; thin trait impls forward to the inner value ---------------------------
    def boxops_rules(self, b):
        b = self.sub('R27:use-stmt', r'(?m)^\s*use crate::boxed::Box;\s*$', '', b)
        b = self.sub('R27:path', r'\bcrate::boxed::Box\b', 'Box', b)
        b = self.sub('R27:type-annotation', r'let (\w+): \*mut \(?dyn Any(?: \+ Send)?\)? =', r'let \1 =', b)
        b = self.sub('R27:type-annotation', r'let (\w+): Box<[^=]*> =', r'let \1 =', b)
        b = self.sub('R2:ptr-cast', r'\s+as \*mut (?:\[T; N\]|T\b|str\b|dyn Any\b)', '', b)
        b = self.sub('R27:raw-reborrow', r'&mut \*(?=[\w:])', '', b)
        b = self.sub('R27:raw-reborrow', r'&\*(?=self\.0)', '', b)
        b = self.desugar_combinators(b)      # R13 (only where the template switches it on)
        last = lambda fn: (lambda m_, a: '%s(%s)' % (fn, ', '.join(a + ['st'])))     # the ghost store goes LAST: nested calls borrow it first
        b = self.sub('R27:empty-slice', r'&mut \[\]', 'empty_slice_cell(st)', b)
        b = self.sub('R27:default-slice', r'\bBox::<\[u8\]>::default\(\)', 'Self::default_slice(st)', b)
        b = self.sub('R2:ptr-cast', r'\s+as \*mut str\b', '', b)
        b = self.map_calls(b, r'(?<![\w:])Box', last('box_ctor'), 'R27:ctor')
        b = self.map_calls(b, r'\bManuallyDrop::new', last('md_new'), 'R27:manually-drop')
        b = self.map_calls(b, r'(?<![\w:])Box::from_raw', last('BoxM::from_raw'), 'R27:from_raw')
        b = self.map_calls(b, r'(?<![\w:])Box::into_raw', last('BoxM::into_raw'), 'R27:into_raw')
        b = self.map_calls(b, r'\bcore::ptr::read', last('cell_read'), 'R27:ptr-read')
        b = self.map_calls(b, r'\bcore::ptr::drop_in_place', last('cell_drop_in_place'), 'R27:drop_in_place')
        b = self.sub('R27:slice-parts', r'\b(?:core::)?ptr::slice_from_raw_parts_mut\(', 'raw_slice_parts(', b)
        b = self.sub('R27:slice-parts', r'(?<![\w:])slice::from_raw_parts_mut\(', 'raw_from_parts(', b)
        b = self.sub('R27:arena-alloc', r'\ba\.alloc\((\w+)\)', r'bump_alloc_val(\1, a, st)', b)
        b = self.sub('R27:pin', r'\bPin::new_unchecked\(', 'pin_new_unchecked(', b)
        b = self.method_to_fn(b, 'into', 'BoxM::pin_from', 'R27:into-pin')
        b = self.sub('R27:any-is', r'\bself\.is::<T>\(\)', 'any_is_T(&self)', b)
        b = self.sub('R27:ptr-eq', r'\b(?:core::)?ptr::eq(?:::<[^>]*>)?\(&\*\*self, &\*\*other\)', 'ptr_identical(self, other)', b)
        b = self.map_calls(b, r'\bv\.into_boxed_slice', lambda m_, a: 'v.into_boxed_slice(st)', 'R27:thread-store')
        b = self.sub('R27:forget', r'\b(?:core::)?mem::forget\((\w+)\)', r'vec_forget(\1, st)', b)
        b = self.sub('R27:vec-len', r'\bself\.len\b(?!\()', 'self.len', b)
        # forwarding to the inner value
        b = self.sub('R27:forward', r'\b(?:PartialEq|PartialOrd|Ord)::(\w+)\(&\*\*self, &\*\*other\)', r'inner_\1(self, other)', b)
        b = self.sub('R27:forward', r'\(\*\*self\)\.finish\(\)', 'inner_finish(self, st)', b)
        b = self.sub('R27:forward', r'\(\*\*self\)\.len\(\)', 'inner_len(self)', b)
        b = self.sub('R27:forward', r'\(\*\*self\)\.(write_\w+)\(([^()]*)\)', r'inner_\1(self, \2, st)', b)
        b = self.sub('R27:size_of', r'\b(?:core::)?mem::size_of::<T>\(\)', 'SIZE_OF_T()', b)
        b = self.sub('R2:type-annotation', r"\blet (\w+): Box<'a, [^=;]+> = ", r'let \1 = ', b)
        b = self.sub('R2:ptr-cast', r'\s+as \*mut dyn Any\b(?! \+)', '', b)
        b = self.sub('R27:thread-store', r'\.downcast::<T>\(\)', '.downcast(st)', b)
        b = self.sub('R27:dangling', r'\b(?:core::)?ptr::NonNull::<T>::dangling\(\)\.as_ptr\(\)', 'dangling_ptr()', b)
        b = self.sub('R27:write-macro', r'\bwrite!\((\w+), "\{\}", &\*\*self\)', r'{ let mut f2__ = fresh_formatter(\1); inner_fmt_display(self, &mut f2__, st) }', b)
        b = self.sub('R27:write-macro', r'\bwrite!\((\w+), "\{:\?\}", &\*\*self\)', r'{ let mut f2__ = fresh_formatter(\1); inner_fmt_debug(self, &mut f2__, st) }', b)
        b = self.map_calls(b, r'\bself\.shrink_to_fit', lambda m_, a: 'self.shrink_to_fit(st)', 'R27:thread-store')
        b = self.sub('R27:vec-ctor', r'(?<![\w:])Vec::new_in\(a\)', 'VecOwn::new_in(a, st)', b)
        b = self.sub('R27:thread-store', r'\bvec\.extend\(iter\)', 'vec.extend(iter, st)', b)
        b = self.sub('R27:thread-store', r'\bvec\.into_boxed_slice\(\)', 'vec.into_boxed_slice(st)', b)
        b = self.sub('R27:use-decl', r'(?m)^\s*use crate::collections::Vec;\s*$', '', b)
        b = self.sub('R27:forward', r'\(\*\*self\)\.(next|next_back)\(\)', r'inner_\1(self, st)', b)
        b = self.sub('R27:forward', r'\(\*\*self\)\.(nth|nth_back)\(([^()]*)\)', r'inner_\1(self, \2, st)', b)
        b = self.sub('R27:forward', r'\(\*\*self\)\.size_hint\(\)', 'inner_size_hint(self, st)', b)
        b = self.sub('R27:forward', r'\(\*\*self\)\.hash\(([^()]*)\)', r'inner_hash(self, \1, st)', b)
        b = self.sub('R27:forward', r'\bfmt::(Display|Debug)::fmt\(&\*\*self, (\w+)\)', lambda m: 'inner_fmt_%s(self, %s, st)' % (m.group(1).lower(), m.group(2)), b)
        b = self.sub('R27:forward', r'\bfmt::Pointer::fmt\(&(\w+), (\w+)\)', r'raw_fmt_pointer(&\1, \2, st)', b)
        b = self.sub('R27:raw-type', r'\blet (\w+): \*const T = ', r'let \1: RawP = ', b)
        b = self.sub('R27:forward', r'\bF::poll\(Pin::new\((?:&mut \*)?self\), (\w+)\)', r'inner_poll(self, \1, st)', b)
        b = self.sub('R27:box-deref', r'&(?:mut )?\*\*?([a-z]\w*)\b(?![.(])', r'\1.0', b)
        return b


    # R28: the generic slice/value fill workers of lib.rs -- typed element addresses, initialiser calls as callback shims ------------
    def slicefill_rules(self, b):
        c = self.cfg
        cb = 'cb_try_fill' if c.get('cb') == 'try' else 'cb_fill'
        if c.get('strip_nested'):
            b = self.strip_nested_fns(b)
        if c.get('fwd_closure'):
            # R38: thin wrappers of the fill workers.  The worker's contract speaks about "the initialiser"; the wrapper must hand on,
            # textually, the closure that defines what it documents (anything else is not decided here), the length argument is free text
            want = re.sub(r'\s+', ' ', c['fwd_closure'].replace('~', ' ')).strip()
            def _fw(m_, a):
                got = re.sub(r'\s+', ' ', ', '.join(a[1:])).strip()
                if got != want:
                    raise ExtractError('R38: the closure handed to %s is `%s`, not `%s`' % (m_.group(0), got[:80], want))
                return '%s(w, fs, %s)' % (m_.group(0).rstrip('(').rstrip(), a[0])
            b = self.map_calls(b, r'\bself\.(?:try_alloc_slice_fill_with|alloc_slice_try_fill_with|alloc_slice_fill_with)', _fw, 'R38:closure-is-the-initialiser')
            def _fw0(m_, a):
                got = re.sub(r'\s+', ' ', ', '.join(a)).strip()
                if got != want:
                    raise ExtractError('R38: the closure handed to %s is `%s`, not `%s`' % (m_.group(0), got[:80], want))
                return '%s(w, fs)' % m_.group(0).rstrip('(').rstrip()
            b = self.map_calls(b, r'\bself\.(?:try_alloc_with|alloc_with)', _fw0, 'R38:closure-is-the-initialiser')
            b = self.sub('R38:exact-iter', r'(?m)^\s*let mut iter = iter\.into_iter\(\);\s*$', '', b)
            return b
        if c.get('fwd_str'):
            # R38: alloc_str / try_alloc_str: the text is its bytes; `from_utf8_unchecked_mut` is the identity on them
            b = self.sub('R38:bytes', r'\bsrc\.as_bytes\(\)', 'src', b)
            b = self.map_calls(b, r'\bself\.(?:try_alloc_slice_copy|alloc_slice_copy)', lambda m_, a: '%s(w, fs, %s)' % (m_.group(0).rstrip('(').rstrip(), a[0]), 'R12:thread-world')
            b = self.map_calls(b, r'(?<![\w:])str::from_utf8_unchecked_mut', lambda m_, a: a[0], 'R38:utf8-identity')
            b = self.sub('R13:question-mark', r'let (\w+) = ([^;?]+)\?;', r'let \1 = match \2 { Ok(v__) => v__, Err(e__) => { return Err(e__); } };', b)
            return b
        # value allocation (alloc_with family): one element, initialiser `f()` takes no index
        b = self.sub('R28:typed-cast', r'\s+as \*mut T\b', '', b)
        b = self.sub('R28:callback', r'(?<![\w.])f\(\)', 'self.%s(w, fs, 0, Ghost(ptr), Ghost(rsv), Ghost(blk))' % cb, b)
        b = self.sub('R28:nested-call', r'(?<![\w.])inner_writer\((\w+), f\)', r'self.inner_writer__%s(w, fs, \1, Ghost(layout.size_), Ghost(rsv), Ghost(blk))' % (c.get('outer') or ''), b)
        b = self.sub('R28:dangling', r'\bNonNull::(?:<T>::)?dangling\(\)\.as_ptr\(\)', 'dangling_elem()', b)
        b = self.sub('R28:reborrow', r'&mut \*p\b', 'p', b)
        b = self.sub('R2:cast', r'\.cast::<\s*T\s*>\(\)', '', b)
        b = self.sub('R28:src-ptr', r'\bsrc\.as_ptr\(\)', 'src.addr', b)
        b = self.sub('R28:layout-for-value', r'\bLayout::for_value\(src\)', 'layout_for_src(src)', b)
        b = self.sub('R28:layout-for-value', r'\(Layout::for_value\((\w+)\)\) == \((\w+)\)', r'layout_eq(layout_for_result(\1), \2)', b)
        # `let X = E?;` is by definition `match E { Ok(v) => v, Err(e) => return Err(From::from(e)) }` (same error type here)
        b = self.sub('R13:question-mark', r'let (\w+) = ([^;?]+)\?;', r'let \1 = match \2 { Ok(v__) => v__, Err(e__) => { return Err(e__); } };', b)
        # `for (i, val) in src.iter().cloned().enumerate()` is by definition: for i in 0..src.len(), val = src[i].clone()
        b = self.sub('R28:enumerate-cloned', r'for \((\w+), (\w+)\) in src\.iter\(\)\.cloned\(\)\.enumerate\(\) \{',
                     r'for \1 in 0..src.len() { let \2 = self.cb_fill(w, fs, \1, Ghost(dst), Ghost(rsv), Ghost(blk));', b)
        b = self.map_calls(b, r'(?<![\w.:])f', lambda m_, a: 'self.%s(w, fs, %s, Ghost(dst), Ghost(rsv), Ghost(blk))' % (cb, a[0]), 'R28:callback')
        b = self.method_to_fn(b, 'add', 'ptr_add_elems', 'R28:typed-ptr-add')
        b = self.sub('R2:as_ptr', r'\.as_ptr\(\)', '', b)
        # ptr::write(ADDR, VALUE): address first, then the value (a call into user code), then the store -- evaluation order made explicit
        b = self.map_calls(b, r'(?<![\w.:])ptr::write',
                           lambda m_, a: '{ let addr__ = %s; let v__ = %s; elem_write(w, fs, Ghost(blk), Ghost(%s), Ghost(%s), addr__, v__) }' % (a[0], a[1], c.get('wbase') or 'dst', c.get('wsize') or 'layout.size_'), 'R28:elem-write')
        b = self.map_calls(b, r'(?<![\w.])(?:core::)?ptr::copy_nonoverlapping',
                           lambda m_, a: 'elems_copy(w, fs, Ghost(blk), %s)' % ', '.join(a), 'R28:elems-copy')
        b = self.map_calls(b, r'(?<![\w.:])slice::from_raw_parts_mut', lambda m_, a: 'mk_slice(%s)' % ', '.join(a), 'R28:mk-slice')
        return b


    # R29: the Alloc / Allocator trait glue of `&Bump`: thin forwarding to the inherent methods, slices as (address, length) pairs ----
    def allocglue_rules(self, b):
        c = self.cfg
        b = self.sub('R29:inherent-call', r'\bBump::<MIN_ALIGN>::(dealloc|shrink|grow)\(self, ', r'self.\1(', b)
        if c.get('trait_grow'):
            # inside `Allocator::grow_zeroed`, `self.grow(..)` on `&&Bump` resolves to the TRAIT method of `&Bump` (it returns the slice)
            b = self.sub('R29:trait-method', r'\bself\.grow\(', 'self.allocator_grow(', b)
        b = self.map_calls(b, r'\bself\.(?:shrink|grow)', lambda m_, a: '%s(%s)' % (m_.group(0).rstrip('(').rstrip(), ', '.join(a + ['Ghost(blk)'])), 'R29:ghost-block')
        b = self.map_calls(b, r'\bself\.allocator_grow', lambda m_, a: 'self.allocator_grow(%s)' % ', '.join(a + ['Ghost(blk)']), 'R29:ghost-block')
        b = self.sub('R13:question-mark', r'let (mut )?(\w+) = ([^;?]+)\?;', r'let \1\2 = match \3 { Ok(v__) => v__, Err(e__) => { return Err(e__); } };', b)
        b = self.sub('R29:zero-fill', r'\b(\w+)\.as_mut\(\)\[([^\]]+?)\.\.\]\.fill\(0\);', r'zero_fill_from(zs, \1, \2);', b)
        b = self.map_calls(b, r'(?<![\w.:])ptr::slice_from_raw_parts_mut', lambda m_, a: 'mk_slice(%s)' % ', '.join(a), 'R29:mk-slice')
        return b


    # R33: the forked lossy UTF-8 decoder (str/lossy.rs): byte slices are windows of a ghost byte sequence ---------------------------
    def lossy_rules(self, b):
        if self.cfg.get('strip_fns'):
            b = self.strip_nested_fns(b)
        # a `macro_rules!` defined in the body is expanded at its invocations (definition of macro expansion: no arguments here)
        mm = mask(b)
        m = re.search(r'macro_rules!\s*(\w+)\s*\{', mm)
        if m:
            o = m.end() - 1
            c = match_close(mm, o)
            arm = b[o + 1:c]
            am = re.match(r'\s*\(\s*\)\s*=>\s*\{(.*)\}\s*;?\s*$', arm, re.S)
            if not am:
                raise ExtractError('R33: macro %s is not of the form `() => { .. }`' % m.group(1))
            body = am.group(1).strip()
            b = b[:m.start()] + b[c + 1:]
            b, n = re.subn(r'\b%s!\(\);?' % re.escape(m.group(1)), lambda _m: body, b)
            self.fired('R33:macro-expansion', n)
        b = self.sub('R5:unsafe-block', r'\bunsafe\s*\{', '{', b)
        b = self.sub('R33:const-item', r'\bconst (\w+): u8 = (\d+);', r'let \1: u8 = \2;', b)
        b = self.sub('R33:deref-get', r'\*xs\.get_unchecked\((\w+)\)', r'xs.get_unchecked(\1)', b)
        b = self.sub('R33:path', r'\bcore_str::utf8_char_width\(', 'utf8_char_width(', b)
        b = self.sub('R33:table-read', r'\bUTF8_CHAR_WIDTH\[b as usize\]', 'WIDTH_TABLE_at(b as usize)', b)
        b = self.sub('R33:from-utf8-unchecked', r'\bstr::from_utf8_unchecked\(&self\.source\[0\.\.(\w+)\]\)', r'str_from_utf8_unchecked(self.source.sub(0, \1))', b)
        b = self.sub('R33:from-utf8-unchecked', r'\bstr::from_utf8_unchecked\(self\.source\)', 'str_from_utf8_unchecked(self.source)', b)
        b = self.sub('R33:subslice', r'&self\.source\[([^\]\[]+?)\.\.\]', r'self.source.sub_from(\1)', b)
        b = self.sub('R33:subslice', r'&self\.source\[([^\]\[]+?)\.\.([^\]\[]+)\]', r'self.source.sub(\1, \2)', b)
        b = self.sub('R33:empty-slice', r'&\[\]', 'SrcM::empty()', b)
        b = self.sub('R33:model-type', r'(?<![\w:])(?:lossy::)?Utf8LossyChunk \{', 'ChunkM {', b)
        b = self.sub('R33:model-type', r'(?<![\w:])Utf8LossyChunksIter \{', 'Utf8LossyChunksIter {', b)
        b = self.sub('R33:model-type', r'(?<![\w:])Utf8Lossy \{', 'Utf8LossyM {', b)
        b = self.sub('R33:model-type', r'\blossy::Utf8Lossy::from_bytes\(', 'Utf8LossyM::from_bytes(', b)
        b = self.sub('R33:slice-ref', r'source: &self\.bytes,', 'source: self.bytes,', b)
        if self.cfg.get('glue'):
            # String::from_utf8_lossy_in: the String being built is abstract (its operations are verified in the strops unit)
            b = self.sub('R33:string-model', r'\bString::from_utf8_unchecked\(Vec::from_iter_in\(v\.iter\(\)\.cloned\(\), bump\)\)', 'StrB::from_utf8_unchecked(bytes_from_iter(v, bump))', b)
            b = self.sub('R33:string-model', r'\bString::from_str_in\(""', 'StrB::from_str_in(SrcM::empty()', b)
            b = self.sub('R33:string-model', r'\bString::with_capacity_in\(', 'StrB::with_capacity_in(', b)
            b = self.sub('R33:const-item', r'\bconst REPLACEMENT: &str = "\\u\{FFFD\}";', 'let REPLACEMENT = replacement_str();', b)
            # `for PAT in iter { .. }` over the chunk iterator: next() until None
            fm = re.search(r'\bfor (ChunkM \{[^}]*\}) in iter\s*\{', b)
            if fm:
                o = fm.end() - 1
                cpos = match_close(mask(b), o)
                body = b[o + 1:cpos]
                b = (b[:fm.start()] + 'loop {\n            match iter.next() {\n                Some(%s) => {%s}\n                None => { break; }\n            }\n        }' % (fm.group(1), body) + b[cpos + 1:])
                self.fired('R23:for-over-iterator')
        return b

    # R20: RawVec growth -- the arena seen through its Alloc interface as a ghost "buffer owned" state -----------------
    def rawvecgrow_rules(self, b):
        b = self.sub('R20:use-stmt', r'(?m)^\s*use crate::AllocErr;\s*$', '', b)
        b = self.sub('R20:variant-path', r'(?<![\w:])CapacityOverflow\b', 'CollectionAllocErr::CapacityOverflow', b)
        b = self.map_calls(b, r'\bself\.a\.realloc', lambda m_, a: 'arena_realloc(ar, %s)' % ', '.join(a), 'R20:arena-realloc')
        b = self.map_calls(b, r'\bAlloc::alloc', lambda m_, a: 'arena_alloc(ar, %s)' % ', '.join(a[1:]), 'R20:arena-alloc')
        b = self.map_calls(b, r'\bself\.a\.dealloc', lambda m_, a: 'arena_dealloc(ar, %s)' % ', '.join(a), 'R20:arena-dealloc')
        b = self.map_calls(b, r'\bself\.dealloc_buffer', lambda m_, a: 'self.dealloc_buffer(ar)', 'R12:thread-arena')
        b = self.map_calls(b, r'\bself\.(reserve_internal_or_error|reserve_internal)', lambda m_, a: 'self.%s(ar, %s)' % (m_.group(1), ', '.join(a)), 'R12:thread-arena')
        b = self.map_calls(b, r'\bLayout::from_size_align_unchecked', lambda m_, a: '(Layout { size_: %s, align_: %s })' % (a[0], a[1]), 'R8:layout-unchecked')
        # `if let (Err(AllocErr), Infallible) = (&res, fallibility)`  ==  res is Err and the caller asked for the infallible flavour
        b = self.sub('R20:err-and-infallible', r'if let \(Err\(AllocErr\), Infallible\) = \(&(\w+), (\w+)\)', r'if err_and_infallible(&\1, \2)', b)
        # `res?` converts crate::AllocErr through `impl From<AllocErr> for CollectionAllocErr` (a constant function)
        # constructors / shrink_to_fit
        b = self.sub('R20:dangling', r'\bNonNull::<T>::dangling\(\)|\bNonNull::dangling\(\)', 'dangling_T()', b)
        b = self.sub('R20:use-stmt', r'(?m)^\s*use crate::boxed::Box;\s*$', '', b)
        b = self.sub('R20:raw-slice', r'\bcore::slice::from_raw_parts_mut\(self\.ptr\(\), ', 'raw_slice(self.ptr, ', b)
        b = self.sub('R20:box-from-raw', r"let (\w+): Box<'a, \[T\]> = Box::from_raw\((\w+)\);", r'let \1: BoxSliceG = box_slice_from_raw(\2);', b)
        b = self.sub('R20:forget', r'\bmem::forget\(self\)', 'rawvec_forget(self)', b)
        b = self.sub('R20:nonnull-new-unchecked', r'\bNonNull::new_unchecked\(', 'nonnull_new_unchecked(', b)
        b = self.map_calls(b, r'\ba\.alloc_zeroed', lambda m_, a: 'arena_alloc_zeroed(ar, %s)' % ', '.join(a), 'R20:arena-alloc-zeroed')
        b = self.sub('R20:result-unwrap', r'(Layout::from_size_align\([^;]*?\))\.unwrap\(\)', r'res_unwrap(\1)', b)
        b = self.sub('R20:model-type', r'(?<![\w:])RawVec \{', 'RawVecG {', b)
        b = self.sub('R20:arena-field', r'(?m)^\s*a,\s*$', '', b)
        b = self.sub('R20:arena-field', r',\s*a\s*\}', ' }', b)
        b = self.sub('R20:arena-field', r'(?m)^\s*let a = self\.a;\s*$', '', b)
        b = self.sub('R20:self-overwrite', r'\bptr::write\(self, RawVec::new_in\(a\)\);', '*self = RawVecG::new_in();', b)
        b = self.sub('R20:model-type', r'(?<![\w:])RawVec::allocate_in\((\w+), (\w+), a\)', r'RawVecG::allocate_in(ar, \1, \2)', b)
        b = self.map_calls(b, r'\bself\.(fallible_reserve_internal|infallible_reserve_internal|reserve_internal_or_panic)', lambda m_, a: None if a and a[0] == 'ar' else 'self.%s(ar, %s)' % (m_.group(1), ', '.join(a)), 'R12:thread-arena')
        b = self.sub('R6:unreachable', r'\bunreachable!\(\)', 'unreachable_unchecked::<()>()', b)
        b = self.sub('R20:variant-path', r'\bErr\(AllocErr\) =>', 'Err(CollectionAllocErr::AllocErr) =>', b)
        b = self.sub('R20:diverging-stmt', r'\bhandle_alloc_error\(([^;{}]*)\);', r'handle_alloc_error::<()>(\1);', b)
        b = self.sub('R20:diverging-stmt', r'\bcapacity_overflow\(\);', 'capacity_overflow::<()>();', b)
        b = self.sub('R20:question-mark-from', r'\b(res)\?', r'(match \1 { Ok(v__) => v__, Err(_e__) => { return Err(CollectionAllocErr::AllocErr); } })', b)
        return b

    # R19: Vec::DrainFilter -- slots as indices, the predicate and element moves as shims over a ghost slot state ----
    def drainfilter_rules(self, b):
        b = self.sub('R19:slice-view', r'(?m)^\s*let v = slice::from_raw_parts_mut\([^;]*\);\s*$', '', b)
        b = self.sub('R19:callback', r'\(self\.pred\)\(&mut v\[(\w+)\]\)', r'cb_pred_elem(&*self, vs, \1)', b)
        b = self.sub('R19:slot-take', r'ptr::read\(&v\[(\w+)\]\)', r'slot_take(vs, \1)', b)
        b = self.sub('R19:slot-addr', r'let (\w+): \*(?:const|mut) T = &(?:mut )?v\[([^\]]+)\];', r'let \1 = \2;', b)
        b = self.map_calls(b, r'(?<![\w.:])ptr::copy_nonoverlapping', lambda m_, a: 'slot_move(vs, %s)' % ', '.join(a[:2]), 'R19:slot-move')
        # Drop: `self.for_each(drop)` is by definition "call next() until None, dropping every item"
        b = self.sub('R19:for_each-drop', r'\bself\.for_each\(drop\);', 'loop { match self.next(vs) { Some(x__) => { slot_value_dropped(%sx__); } None => { break; } } }' % ('vs, ' if self.cfg.get('drop_takes_state') else ''), b)
        b = self.sub('R19:base-ptr', r'\bself\.vec\.as_mut_ptr\(\)', '(0usize)', b)
        b = self.method_to_fn(b, 'sub', 'idx_sub', 'R19:ptr-sub')
        b = self.map_calls(b, r'(?<![\w.:])ptr::copy', lambda m_, a: 'slots_shift_tail(vs, %s)' % ', '.join(a), 'R19:shift-tail')
        b = self.map_calls(b, r'\bself\.vec\.set_len', lambda m_, a: 'vec_set_len(vs, %s)' % a[0], 'R19:set_len')
        return b

    # R18: String::retain -- byte-index abstraction of the text, user predicate as a callback shim ------------------
    def strip_nested_items(self, b):
        """items (struct / impl blocks) declared inside the function body are removed from the body text: they are extracted
        as items of their own (their functions get their own contracts)"""
        while True:
            mm = mask(b)
            m = re.search(r'(?m)^\s*(?:struct\s+\w+[^{;]*\{|impl\b[^{;]*\{)', mm)
            if not m:
                return b
            o = m.end() - 1
            c = match_close(mm, o)
            b = b[:m.start()] + b[c + 1:]
            self.fired('R18:nested-item-lifted')

    def strip_nested_fns(self, b):
        """`fn` items (with their attributes) declared inside the function body are removed from the body text: they are extracted as
        functions of their own"""
        while True:
            mm = mask(b)
            m = re.search(r'(?m)^(?:\s*#\[[^\]]*\]\s*\n)*\s*(?:unsafe )?fn \w+', mm[1:])
            if not m:
                return b
            st = m.start() + 1
            k = mm.index('{', m.end() + 1)
            # skip the where clause / generics: first '{' at paren depth 0 after the signature
            pd, k = 0, m.end() + 1
            while True:
                ch = mm[k]
                if ch == '(':
                    pd += 1
                elif ch == ')':
                    pd -= 1
                elif ch == '{' and pd == 0:
                    break
                k += 1
            c = match_close(mm, k)
            b = b[:st] + b[c + 1:]
            self.fired('R18:nested-item-lifted')

    def strretain_rules(self, b):
        if self.cfg.get('strip_nested'):
            b = self.strip_nested_items(b)
        g = self.cfg.get('guard')           # name of the scope guard variable if the code has one, else None
        pre = (g + '.') if g else ''
        owner = (g + '.s') if g else 'self'
        b = self.sub('R18:len', r'\b%s\.len\(\)' % re.escape(owner), 'self.len', b)
        b = self.sub('R18:len', r'\bself\.len\(\)', 'self.len', b)
        b = self.sub('R18:next-char', r'(?:unsafe\s*)?\{?\s*%s\.get_unchecked\((\w[\w.]*)\.\.(\w+)\)\.chars\(\)\.next\(\)\.(?:unwrap|unwrap_unchecked)\(\)\s*\}?' % re.escape(owner),
                     r'next_char_at(ts, \1, \2)', b)
        b = self.sub('R18:char-len', r'\b(\w+)\.len_utf8\(\)', r'char_len_utf8(\1)', b)
        # what an unwind out of the predicate would leave as the string's length: the guard's Drop value if there is a guard
        restorable = ('%s.restore_len()' % g) if g else 'self.len'
        b = self.sub('R18:callback', r'(?<![\w.])f\((\w+)\)', r'cb_pred(ts, %s, %sidx, %sdel_bytes, \1)' % (restorable, pre, pre), b)
        b = self.sub('R18:base-ptr', r'\b%s\.vec\.as_(?:mut_)?ptr\(\)' % re.escape(owner), '(0usize)', b)
        b = self.map_calls(b, r'(?<![\w.:])ptr::copy', lambda m_, a: 'text_copy(%s)' % ', '.join(a), 'R18:text-copy')
        b = self.map_calls(b, r'\b%s\.vec\.set_len' % re.escape(owner), lambda m_, a: 'self.len = %s' % a[0], 'R18:set_len')
        if g:
            # `let mut guard = SetLenOnDrop { s: self, idx: 0, del_bytes: 0 };` -> the back-reference field is dropped;
            # `drop(guard)` -> its Drop body made explicit
            b = self.sub('R18:guard-backref', r'\bs:\s*self\s*,', '', b)
            b = self.sub('R18:guard-drop', r'(?<![\w.])drop\(%s\)' % re.escape(g), '%s.drop(self)' % g, b)
        return b

    # R15 ------------------------------------------------------------------------------------
    def desugar_pipeline(self, b):
        """`let X = iter::from_fn(|| GEN); ... X.filter_map(|p| F).next()`  ==  first F(item) that is Some, over the items GEN
        yields until it returns None (definition of from_fn / filter_map / next in core::iter) -> an explicit loop"""
        mm = mask(b)
        m = re.search(r'let (\w+) = iter::from_fn\s*\(', mm)
        if not m:
            return b
        x = m.group(1)
        o = m.end() - 1
        c = match_close(mm, o)
        gen = b[o + 1:c].strip()
        g = re.match(r'^(?:move\s+)?\|\s*\|\s*(\{.*\})$', gen, re.S)
        if not g:
            raise ExtractError('R15: generator closure not of the form || { .. }')
        semi = mm.index(';', c)
        b = b[:m.start()] + b[semi + 1:]
        mm = mask(b)
        f = re.search(r'\b%s\.filter_map\s*\(' % x, mm)
        if not f:
            raise ExtractError('R15: %s.filter_map(..) not found' % x)
        o = f.end() - 1
        c = match_close(mm, o)
        flt = b[o + 1:c].strip()
        fm = re.match(r'^(?:move\s+)?\|\s*(\w+)\s*\|\s*(\{.*\})$', flt, re.S)
        if not fm:
            raise ExtractError('R15: filter closure not of the form |p| { .. }')
        nx = re.match(r'\s*\.next\(\)', mm[c + 1:])
        if not nx:
            raise ExtractError('R15: .next() expected after filter_map(..)')
        rep = ('{\n            let mut found__ = None;\n            loop {\n                let item__ = %s;\n                match item__ {\n'
               '                    None => { break; }\n                    Some(%s) => {\n                        let r__ = %s;\n'
               '                        match r__ { Some(v__) => { found__ = Some(v__); break; } None => {} }\n                    }\n                }\n            }\n'
               '            found__\n        }') % (g.group(1), fm.group(1), fm.group(2))
        b = b[:f.start()] + rep + b[c + 1 + nx.end():]
        self.fired('R15:iterator-pipeline')
        return b

    # the whole pipeline ----------------------------------------------------------------------
    def rewrite(self, body):
        b = strip_comments(body, mask(body))
        # R0: join method chains split over lines (`x\n    .f()` -> `x.f()`): layout only
        b = self.sub('R0:join-chains', r'\s*\n\s*\.(?=[A-Za-z_])', '.', b)
        b = self.macros(b)                                                   # R6
        b = self.expect_calls(b)                                             # R6
        b = self.sub('R5:unsafe-block', r'\bunsafe\s*\{', '{', b)            # R5
        kind = self.cfg.get('kind', 'bump')
        # R3: Cell fields of Bump / iterator
        for f in self.cfg.get('self_cells', []):
            b = self.sub('R3:self-cell-get', r'\bself\.%s\.get\(\)' % f, 'self.%s' % f, b)
            b = self.map_calls(b, r'\bself\.%s\.set' % f,
                               lambda m, a, f=f: 'self.%s = %s' % (f, a[0]), 'R3:self-cell-set')
        if kind == 'footer':
            # methods of ChunkFooter: `self` is the footer at address self_addr
            b = self.sub('R4:self-addr', r'\(\s*self as \*const ChunkFooter as \*const u8\s*\)', 'self_addr', b)
            b = self.sub('R4:self-addr', r'\bself as \*const ChunkFooter as \*const u8', 'self_addr', b)
            b = self.map_calls(b, r'\bptr::eq', lambda m, a: '(%s == %s)' % (a[0], a[1]), 'R4:ptr-eq')
            b = self.sub('R4:self-deref', r'\bself\.(\w+)\.get\(\)', r'footer_read(w, self_addr).\1', b)
            b = self.sub('R4:self-deref', r'\bself\.(\w+)\b(?!\()', r'footer_read(w, self_addr).\1', b)
            b = self.sub('R4:self-addr', r'\(self == ', '(self_addr == ', b)
        if kind == 'vec':
            b = self.vec_rules(b)
        if kind == 'string':
            # R17: `Bound<&usize>` patterns lose the reference (the model's bounds hold values); `self.is_char_boundary` is a shim
            b = self.sub('R17:bound-deref', r'\b(Included|Excluded)\(&(\w+)\)', r'\1(\2)', b)
            b = self.sub('R17:is_char_boundary', r'\bself\.is_char_boundary\(', 'is_char_boundary(', b)
        if kind == 'dedup':
            # R21: slots as indices; the comparison closure and the element moves as shims over a ghost "all slots distinct" flag
            b = self.sub('R21:base-ptr', r'\bs\.as_mut_ptr\(\)', '(0usize)', b)
            # the pair of sub-slices the function returns is its split point (everything before it / everything from it on)
            b = self.sub('R21:split-point', r'\(s, &mut \[\]\)', 'split_all(&s)', b)
            b = self.sub('R21:split-point', r'\bs\.split_at_mut\(', 'split_at_mut_idx(&s, ', b)
            b = self.sub('R21:reborrow', r'&mut \*(\w+)', r'\1', b)
            b = self.sub('R21:ptr-offset', r'\b(\w+)\.offset\((-?\d+)\)', r'idx_offset(\1, \2)', b)
            b = self.map_calls(b, r'(?<![\w.:])same_bucket', lambda m_, a: 'cb_same_bucket(vs, %s)' % ', '.join(a), 'R21:callback')
            b = self.map_calls(b, r'(?<![\w.])mem::swap', lambda m_, a: 'slot_swap(vs, %s)' % ', '.join(a), 'R21:slot-swap')
            b = self.map_calls(b, r'(?<![\w.:])ptr::copy_nonoverlapping', lambda m_, a: 'slot_copy(vs, %s)' % ', '.join(a[:2]), 'R21:slot-copy')
            b = self.map_calls(b, r'(?<![\w.:])ptr::copy', lambda m_, a: 'slot_copy(vs, %s)' % ', '.join(a[:2]), 'R21:slot-copy')
            b = self.map_calls(b, r'(?<![\w.:])ptr::write', lambda m_, a: 'slot_copy(vs, %s)' % ', '.join(reversed(a[:2])), 'R21:slot-copy')
            b = self.sub('R21:needs_drop', r'\bmem::needs_drop::<\s*T\s*>\(\)', 'NEEDS_DROP()', b)
        if kind == 'slicefill':
            b = self.slicefill_rules(b)
        if kind == 'allocglue':
            b = self.allocglue_rules(b)
        if kind == 'chunkiter':
            # R24: the safe chunk iterator: the slice it builds is the (address, length) pair, checked to lie inside a held block
            b = self.sub('R24:raw-next', r'\bself\.raw\.next\(\)', 'self.raw.next(w)', b)
            b = self.sub('R24:maybe-uninit-cast', r'\s+as \*const mem::MaybeUninit<u8>', '', b)
            b = self.map_calls(b, r'(?<![\w.:])slice::from_raw_parts', lambda m_, a: 'raw_slice(w, Ghost(blk__), %s)' % ', '.join(a), 'R24:from_raw_parts')
        if kind == 'rawvecgrow':
            b = self.rawvecgrow_rules(b)
        if kind == 'boxops':
            return self.boxops_rules(b)
        if kind == 'lossy':
            return self.lossy_rules(b)
        if kind == 'strops':
            b = self.strops_rules(b)
        if kind in ('vecops', 'strops'):
            # the element-move model has its own (complete) rule set: none of the arena rules below applies
            b = self.vecops_rules(b)
            b = self.sub('R10:unreachable', r'\bcore::hint::unreachable_unchecked\(\)', 'unreachable_unchecked::<()>()', b)
            b = self.desugar_combinators(b)
            return b
        if kind == 'drainfilter':
            b = self.drainfilter_rules(b)
        if kind == 'strretain':
            b = self.strretain_rules(b)
        if kind == 'strguard':
            b = self.sub('R18:len', r'\bself\.s\.len\(\)', 's.len', b)
            b = self.map_calls(b, r'\bself\.s\.vec\.set_len', lambda m_, a: 's.len = %s' % a[0], 'R18:set_len')
        if kind == 'setlen':
            # R16: the guard's `len: &mut usize` back-reference is dropped (its write-back is made explicit at the use site)
            b = self.sub('R16:guard-deref', r'\*len\b', 'len', b)
            b = self.sub('R16:guard-backref', r'(?m)^\s*len,\s*$', '', b)
        b = self.desugar_pipeline(b)                                         # R15
        if self.cfg.get('cand'):
            # R32: the slow path's candidate call is routed through a verified wrapper that carries two ghost arguments (is this the first
            # candidate? what was the doubled size?) so that C18 can speak about the FIRST size offered
            b = self.sub('R32:candidate-call', r'Self::new_chunk_memory_details\(Some\(([^()]+)\), layout\)',
                         r'Self::ncmd_candidate(Some(\1), layout, Ghost(was_first__), Ghost(base0__))', b)
        b = self.sub('R7:empty-chunk', r'\bEMPTY_CHUNK\.get\(\)', 'empty_chunk_get()', b)
        b = self.aliases(b)                                                  # R4
        b = self.footer_derefs(b)                                            # R4/R3
        # R7 shims taking the world
        b = self.method_to_fn(b, 'offset_from', 'ptr_offset_from', 'R7:offset_from')
        b = self.sub('R7:offset_from', r'(ptr_offset_from\([^;]*?\)) as usize', r'\1', b)
        b = self.map_calls(b, r'(?<![\w.:])ptr::write',
                           lambda m, a: 'footer_write(w, %s)' % ', '.join(a), 'R7:ptr-write')
        b = self.map_calls(b, r'(?<![\w.])(?:core::)?ptr::copy_nonoverlapping',
                           lambda m, a: 'copy_nonoverlapping_shim(%s)' % ', '.join(a), 'R7:copy_nonoverlapping')
        b = self.map_calls(b, r'(?<![\w.:])ptr::copy',
                           lambda m, a: 'copy_shim(%s)' % ', '.join(a), 'R7:copy')
        b = self.map_calls(b, r'(?<![\w.:])alloc', lambda m, a: 'alloc(w, %s)' % ', '.join(a), 'R7:alloc')
        b = self.map_calls(b, r'(?<![\w.:])dealloc', lambda m, a: 'dealloc(w, %s)' % ', '.join(a), 'R7:dealloc')
        b = self.sub('R10:unreachable', r'\bcore::hint::unreachable_unchecked\(\)', 'unreachable_unchecked()', b)
        # R2 identity conversions
        b = self.map_calls(b, r'\bNonNull::new_unchecked', lambda m, a: '(%s)' % a[0], 'R2:new_unchecked')
        b = self.map_calls(b, r'\bNonNull::new', lambda m, a: 'nonnull_new(%s)' % a[0], 'R2:nonnull_new')
        b = self.map_calls(b, r'\bCell::new', lambda m, a: '(%s)' % a[0], 'R3:cell-new')
        b = self.sub('R2:as_ptr', r'\.as_ptr\(\)', '', b)
        b = self.sub('R2:cast', r'\.cast(?:::<\s*u8\s*>)?\(\)', '', b)
        b = self.sub('R2:ptr-cast', r'\s+as \*(?:mut|const) (?:u8|ChunkFooter|_|T)\b', '', b)
        b = self.method_to_fn(b, 'add', 'ptr_add', 'R7:ptr-add')
        b = self.method_to_fn(b, 'is_null', 'ptr_is_null', 'R2:is_null')
        b = self.sub('R8:layout-new', r'\bLayout::new::<\s*ChunkFooter\s*>\(\)', 'FOOTER_LAYOUT()', b)
        b = self.sub('R8:layout-new-T', r'\bLayout::new::<\s*T\s*>\(\)', 'layout_new_T()', b)
        b = self.sub('R1:phantom', r'\b\w+\s*:\s*PhantomData\s*,?', '', b)
        b = self.method_to_fn(b, 'count', 'raw_iter_count', 'R13:iter-count', extra_first='w')
        b = self.sub('R8:size_of', r'\bmem::size_of::<\s*ChunkFooter\s*>\(\)', 'FOOTER_SIZE', b)
        b = self.sub('R8:size_of-usize', r'\bmem::size_of::<\s*usize\s*>\(\)', '8usize', b)
        b = self.sub('R8:size_of-T', r'\bmem::size_of::<\s*T\s*>\(\)', 'ELEM_SIZE()', b)
        b = self.sub('R8:align_of-T', r'\bmem::align_of::<\s*T\s*>\(\)', 'ELEM_ALIGN()', b)
        # any other type's size: an arbitrary value rustc could produce
        b = self.sub('R8:size_of-other', r'\b(?:core::)?mem::size_of::<(?:[^<>()]|<[^<>]*>)*>\(\)', 'SIZE_OF_OTHER()', b)
        b = self.map_calls(b, r'\bLayout::array::<\s*T\s*>', lambda m, a: 'layout_array_T(%s)' % a[0], 'R8:layout-array')
        b = self.sub('R8:isize-max', r'::core::isize::MAX', 'isize::MAX', b)
        b = self.map_calls(b, r'\bcmp::max', lambda m, a: 'umax_exec(%s, %s)' % (a[0], a[1]), 'R8:cmp-max')
        # R13: std Option/Result combinators with closure arguments are replaced by their definition (a `match`)
        b = self.desugar_combinators(b)
        b = self.sub('R1:self-type', r'(?<![\w:])Bump::(try_with_capacity|with_capacity|try_new|new)\(', r'Self::\1(', b)
        # R12: thread the world parameter through calls of functions that take it
        for f in self.cfg.get('w_funcs', []):
            b = self.map_calls(b, r'(?:\bself\.|\bSelf::|(?<![\w.:]))' + f + r'(?:::<[^>]*>)?',
                               lambda m, a: None if (a and a[0] == 'w') else m.group(0).rstrip('(').rstrip() + '(' + ', '.join(['w'] + a) + ')',
                               'R12:thread-world')
        return b
