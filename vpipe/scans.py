"""Mechanical source scans that back a few whole-crate frame statements (C03, C20).  Each returns failures in the
same shape as Engine V failures; an unexpected construct is a failure with the offending lines as the 'input'."""
import os
import re
from extract import Source, mask, strip_comments


def _fail(prop, ob, what, lines):
    return {'obligation': ob, 'props': [prop], 'function': None, 'src': 'src/lib.rs', 'kind': what, 'gen_line': None,
            'gen_text': '', 'verus_output': what + '\n' + '\n'.join(lines), 'engine': 'scan', 'failing_input_found': True}


def enclosing_fn(src, pos):
    best = None
    for m in re.finditer(r'\bfn (\w+)\b', src.masked[:pos]):
        best = m
    # walk back until we find a fn whose body contains pos
    for m in reversed(list(re.finditer(r'\bfn (\w+)\b', src.masked[:pos]))):
        o = src.masked.find('{', m.end())
        if o < 0:
            continue
        from extract import match_close
        try:
            c = match_close(src.masked, o)
        except Exception:
            continue
        if o < pos < c:
            return m.group(1)
    return None


def scan_c20(repo):
    """no global mutable state besides the read-only sentinel: the only `static` is EMPTY_CHUNK; no static mut, thread_local!,
    atomics or lazy statics in the arena code; UnsafeCell/Cell only as fields of Bump/ChunkFooter"""
    src = Source(os.path.join(repo, 'src/lib.rs'))
    end = src.masked.find('#[cfg(test)]')
    code = src.masked[:end if end > 0 else len(src.masked)]
    out = []
    statics = re.findall(r'(?m)^\s*(?:pub(?:\([a-z]+\))? )?static\s+(mut\s+)?(\w+)', code)
    bad = [n for mut, n in statics if mut or n != 'EMPTY_CHUNK']
    if bad or len(statics) != 1:
        out.append(_fail('C20', 'scan.only_static_is_the_sentinel', 'global state other than the read-only EMPTY_CHUNK', [str(statics)]))
    for pat, what in [(r'thread_local!', 'thread-local state'), (r'\bAtomic[A-Z]\w*', 'atomics'), (r'\blazy_static!|\bOnceCell\b|\bOnceLock\b|\bLazyLock\b', 'lazily initialised global')]:
        hits = [src.line_of(m.start()) for m in re.finditer(pat, code)]
        if hits:
            out.append(_fail('C20', 'scan.no_shared_mutable_state', what + ' in the arena code', ['src/lib.rs:%d' % h for h in hits]))
    # an idle arena can be moved to another thread for EVERY minimum alignment, and is never shared: the marker impls (whole text incl. tests excluded)
    send = re.findall(r'(?m)^unsafe impl\s*(<[^>]*>)?\s*Send for Bump\s*(<[^>]*>)?', code)
    ok_send = any('const MIN_ALIGN: usize' in (g or '') and 'MIN_ALIGN' in (a or '') for g, a in send)
    if not ok_send:
        out.append(_fail('C20', 'scan.send_for_every_min_align', '`unsafe impl<const MIN_ALIGN: usize> Send for Bump<MIN_ALIGN>` not found: some Bump<N> cannot be moved to another thread', [str(send)]))
    if re.search(r'(?m)^unsafe impl[^\n]*\bSync for Bump\b', code):
        out.append(_fail('C20', 'scan.bump_is_not_sync', 'Bump implements Sync: one arena could be used from two threads at once', []))
    return out, {'statics': [n for _, n in statics], 'send_impls': [' '.join(x) for x in send]}


def scan_c03(repo):
    """the global allocator is reached only through new_chunk (alloc) and dealloc_chunk_list (dealloc); the list walker is
    called only by Drop::drop and reset"""
    src = Source(os.path.join(repo, 'src/lib.rs'))
    end = src.masked.find('#[cfg(test)]')
    code = src.masked[:end if end > 0 else len(src.masked)]
    out = []
    info = {}
    for name, allowed in [('alloc', {'new_chunk'}), ('dealloc', {'dealloc_chunk_list'}), ('dealloc_chunk_list', {'drop', 'reset'}),
                          ('realloc', set()), ('alloc_zeroed', set())]:
        callers = set()
        for m in re.finditer(r'(?<![\w.:])(?:core_alloc::alloc::|alloc::alloc::|std::alloc::)?%s\s*\(' % name, code):
            # skip the definition `fn name(`
            if re.search(r'fn\s+$', code[max(0, m.start() - 8):m.start()]):
                continue
            callers.add(enclosing_fn(src, m.start()))
        info[name] = sorted(c or '?' for c in callers)
        extra = callers - allowed
        if extra:
            out.append(_fail('C03', 'scan.%s_called_only_from_%s' % (name, '_'.join(sorted(allowed)) or 'nowhere'),
                             'global %s reached from %s' % (name, sorted(c or '?' for c in extra)), []))
    return out, info
