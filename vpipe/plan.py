"""Per-property plan: which Engine V units, source scans and Engine K harnesses decide each property.

V obligations are attached to properties by the `// @ob Cxx name` tags in the contract templates (and on the shim
preconditions in the prelude), so nothing about V is listed here except the unit names.  K harness names refer to
functions in /verif/kani/harness/*.rs; they are BOUNDED stand-ins unless marked loop-free/full-domain in DESIGN.md.
"""

V = ['arena']
VR = ['arena', 'rawvec']

PLAN = {
    'C01': dict(v=V, level='proof',
                k_quick=['k_fast_448', 'k_dealloc'], k_thorough=['k_fast_448_m8', 'k_fast_448_m16', 'k_fast_64_m2', 'k_fast_64_m4', 'k_fast_empty', 'k_dealloc_m8', 'k_grow', 'k_shrink', 'k_round_up_to', 'k_round_down_to', 'k_round_ptr'],
                technique='deductive verification (Verus) of the real allocation functions against placement contracts + representation invariant; Kani memory-level stand-in',
                explanation='Every allocating function (fast path, dispatcher, new_chunk, dealloc, shrink, grow, rewind regions, reset) is verified against a contract that '
                            'places the returned block inside [data, old finger) of a chunk held in the ledger, below the footer, with the frame "only the finger of the current '
                            'chunk changed"; the representation invariant (cur_inv + list_wf) is established by the constructors and preserved by every operation, and the step '
                            'lemma lemma_list_ptr_step lifts this to all histories. Unbounded: all sizes, alignments, MIN_ALIGN, chunk addresses. The Kani harnesses add CBMC '
                            'pointer checks on real memory for two chunk geometries (bounded).'),
    'C02': dict(v=V, level='model_checking',
                k_quick=['k_shrink', 'k_grow', 'k_fill_copy_clone', 'k_fill_with_order'], k_thorough=['k_shrink_odd', 'k_shrink_m8', 'k_shrink_align', 'k_shrink_notlast', 'k_grow_m8', 'k_grow_align', 'k_grow_notlast', 'k_glue_grow_zeroed', 'k_fill_str', 'k_rewind_keeps_inner_allocs'],
                technique='Verus proves the address ranges of every copy (source/destination/non-overlap/length); byte contents are checked by bounded Kani harnesses',
                explanation='Placement half is proof (preconditions of copy_nonoverlapping/copy shims in shrink/grow, frame clauses); the byte-level half (read-back, preserved '
                            'prefix, untouched neighbour, closure call order) is BOUNDED model checking: blocks of at most 8 bytes, slices of at most 3 elements, one 448-byte chunk.'),
    'C03': dict(v=V, scans=['c03'], level='proof',
                k_quick=['k_new_chunk', 'k_list_1'], k_thorough=['k_new_chunk_64', 'k_list_0', 'k_list_2', 'k_list_3'],
                technique='Verus: ledger ghost state of the global allocator; dealloc shim requires the recorded (ptr, layout); unbounded chunk-list induction (ghost depth)',
                explanation='new_chunk records exactly the (ptr, layout) the allocator returned; every global dealloc call is proved to pass a block that is in the ledger with '
                            'that layout and removes it (so never twice); dealloc_chunk_list is verified with a loop invariant over a list of ANY length to return exactly the '
                            'blocks of the list and to stop at the sentinel; Drop returns the whole list, reset all but the head; a source scan shows these are the only routes '
                            'to the global allocator. Moves between threads and "no reference alive" are ownership facts outside the technique (C05).'),
    'C04': dict(v=V, level='proof', k_quick=[], k_thorough=['k_fast_448_m16', 'k_fast_448_m8', 'k_shrink_m8', 'k_grow_m8', 'k_dealloc_m8'],
                technique='deductive verification (Verus, bit-vector lemmas) of alignment postconditions for all MIN_ALIGN, sizes, alignments and chunk base residues',
                explanation='aligned(p, layout.align) and aligned(p, MIN_ALIGN) are postconditions of the fast path, shrink, grow and the dispatchers; aligned(finger, MIN_ALIGN) '
                            'is part of the invariant, established by the constructors (needs the alignment of the static sentinel, extracted from its #[repr]) and new_chunk, and '
                            'preserved by dealloc/shrink/grow/rewind/reset. The constructors are proved to return only if MIN_ALIGN is a power of two <= 16.'),
    'C06': dict(v=V, level='proof', k_quick=['k_list_1'], k_thorough=['k_list_0', 'k_list_2', 'k_list_3'],
                technique='Verus contract of the real reset() over an unbounded chunk list + fast-path completeness',
                explanation='reset() is verified: chunk-less => nothing changes; otherwise finger == footer (iteration slice empty, chunk_capacity == usable), prev == sentinel, '
                            'ledger == old ledger minus the older chunks, limit and footer unchanged, accounting reset; the invariant holds again so the contract applies to any '
                            'later history. fast.complete (Some <=> fits) gives "hands out the full capacity again without the global allocator".'),
    'C07': dict(v=V, level='proof', k_quick=['k_limit_remaining'], k_thorough=[],
                technique='Verus contracts on the limit arithmetic and on fast-path completeness; the iterator pipeline of the slow path is a bounded Kani stand-in',
                explanation='allocation_limit_remaining / chunk_fits_under_limit are verified against the property (headroom is Some while a limit is set, zero when over); the '
                            'fast path is complete and independent of the limit; new_chunk accounts exactly the usable bytes. That the slow path reaches new_chunk only for admitted '
                            'candidates is checked by Kani on the real function (bounded: one request, concrete request sizes, symbolic limit, nondeterministic refusals).'),
    'C08': dict(v=V, level='proof', k_quick=['k_list_1'], k_thorough=['k_list_0', 'k_list_2', 'k_list_3', 'k_new_chunk'],
                technique='Verus: accounting clause in the list invariant, induction lemma, contracts of the two getters',
                explanation='list_wf carries allocated_bytes(a) == allocated_bytes(prev) + usable(a); lemma_accounting proves allocated_bytes == total bytes held - n*FOOTER_SIZE by '
                            'induction on a list of any length; new_chunk and reset establish the clause, no other function writes the field (frame clauses); '
                            'allocated_bytes_including_metadata is verified to return total_held (Iterator::count is an assumed shim).'),
    'C09': dict(v=V, level='proof', k_quick=[], k_thorough=['k_ncmd', 'k_ncmd_m16', 'k_round_up_to'],
                technique='Verus: absence of overflow/panic obligations on every try_ path, Err => frame; slow-path loop bounded by Kani',
                explanation='Every arithmetic operation, debug_assert!, unwrap and panic shim on the try_ paths is a discharged obligation for all inputs; Err/None postconditions '
                            'state that nothing changed; infallible wrappers return only what the fallible twin returns in Ok. Termination of the halving loop and allocator-failure '
                            'injection are checked by Kani (bounded, see finding F8 for the zero-size corner).'),
    'C10': dict(v=V, level='proof', k_quick=['k_list_1'], k_thorough=['k_list_2', 'k_list_3', 'k_try_fill_new_chunk'],
                technique='Verus contracts of ChunkRawIter::next / as_raw_parts over the unbounded list + no-padding clause of the fast path',
                explanation='next() is verified to yield [finger, footer) of the current chunk and to step to prev, stopping exactly at the sentinel, for a list of any length; '
                            'fast.no_padding shows uniform allocations are adjacent. The safe iterator is a thin wrapper over the raw one (not extracted; Kani compares them, bounded).'),
    'C11': dict(v=V, level='proof', k_quick=['k_rewind', 'k_try_fill_releases', 'k_rewind_keeps_inner_allocs', 'k_try_fill_new_chunk', 'k_rewind_new_chunk'], k_thorough=['k_rewind_m16'],
                technique='Verus on the mechanically extracted Err arms of alloc_try_with/try_alloc_try_with + dealloc contract; ownership of the error value by Kani',
                explanation='The rewind regions are verified against rewind_post (not last => nothing changes; same chunk => finger restored; new chunk => whole chunk free again). '
                            'Exactly-once delivery of E and "initialiser not run when the reservation fails" are checked by Kani with a drop-counting error type (bounded).'),
    'C12': dict(v=V, level='proof', k_quick=['k_shrink', 'k_grow', 'k_glue_alloc_shrink_dealloc', 'k_glue_grow_zeroed'], k_thorough=['k_shrink_odd', 'k_shrink_m8', 'k_shrink_align', 'k_shrink_notlast', 'k_grow_m8', 'k_grow_align', 'k_grow_notlast', 'k_dealloc'],
                technique='Verus contracts of dealloc/shrink/grow for arbitrary old/new layouts; trait glue and contents by Kani',
                explanation='Result fits the new layout (size, both alignments), Err => nothing changed, in-place moves stay inside the old block and never overlap source and '
                            'destination, fresh blocks are disjoint from the old one; deallocate of a non-last block is a no-op. The Allocator glue (slice length, zeroed tail) and '
                            'byte preservation are bounded Kani harnesses.'),
    'C13': dict(v=['rawvec', 'dedup', 'vecops'], level='model_checking',
                k_quick=['k_vec_insert_remove', 'k_vec_swap_remove_truncate', 'k_vec_drain', 'k_vec_append_split_off', 'k_vec_push_pop_grow', 'k_vec_shrink_moves', 'k_vec_insert_oob', 'k_drop_dedup'],
                k_thorough=['k_vec_insert_remove_ends', 'k_vec_drain_wide', 'k_vec_reserve_shrink_small', 'k_vec_drain_filter', 'k_vec_zst', 'k_ovf_vec', 'k_vec_remove_oob',
                            'k_vec_swap_remove_oob', 'k_vec_split_off_oob', 'k_vec_drain_oob', 'k_vec_drain_inverted', 'k_drop_dedup', 'k_box_from_vec_then_alloc'],
                technique='bounded model checking (Kani) of the real Vec operations against a sequence model; Verus on the RawVec growth arithmetic',
                explanation='BOUNDED. Each harness runs one real Vec operation on a vector of length <= 3 (concrete shape, SYMBOLIC element values) next to other collections in the '
                            'same arena and compares with a sequence model of std\'s documented behaviour; out-of-range arguments are should_panic twins. Symbolic lengths/indices '
                            'were measured to cost CBMC > 30 GB, so index arguments are selected concrete values, not all values. The growth path (cap, fallible_reserve_internal, reserve_internal(_or_error), '
                            'amortized_new_size, current_layout, dealloc_buffer: capacity promise, doubling, overflow refused, Err leaves vector AND buffer untouched) and the '
                            'swap-only dedup loop are proved unbounded by Verus.'),
    'C14': dict(v=['strbounds', 'strretain', 'strops'], level='model_checking',
                k_quick=['k_lossy_chunk_3', 'k_width_table', 'k_str_insert_mid', 'k_str_truncate_split', 'k_str_drain', 'k_str_insert_non_boundary'],
                k_thorough=['k_lossy_chunk_2', 'k_lossy_chunk_4', 'k_str_insert_ends', 'k_str_remove', 'k_str_lossy_truncated', 'k_str_truncate_non_boundary',
                            'k_str_split_off_non_boundary', 'k_str_remove_past_end'],
                technique='Kani: forked lossy UTF-8 decoder against the Unicode definition on ALL byte strings of length <= 4 (symbolic), width table complete; String operations '
                          'on a fixed mixed-width text; Verus: char-boundary contract of replace_range for every range form',
                explanation='BOUNDED for the operations (the text "a\u00e9\u20ac", selected boundary and non-boundary indices, exact byte comparison with the expected text); COMPLETE for the first '
                            'chunk of the lossy decoder on all inputs of length <= 4 and for the 256-entry width table (loop-free / fully symbolic); replace_range\'s boundary '
                            'assertions are proved by Verus to put both ends of the removed byte range on char boundaries for Included/Excluded/Unbounded ends. from_utf16_in, '
                            'retain, pop and replace_range as whole operations exceeded the CBMC budget and are not decided.'),
    'C15': dict(v=['drainfilter', 'intoiter', 'rawvec', 'dedup', 'vecops', 'boxops'], level='model_checking',
                k_quick=['k_drop_vec_ops', 'k_drop_iters', 'k_drop_forgotten_iterators', 'k_drop_no_destructors', 'k_drop_dedup', 'k_drop_zst'],
                k_thorough=['k_drop_dedup_retain', 'k_box_drop_once', 'k_box_slices_arrays'],
                technique='bounded model checking (Kani) with a per-element drop ledger on the real Vec/Box code',
                explanation='BOUNDED: vectors of <= 3 elements whose Drop bumps a per-id counter; pop/remove/swap_remove/truncate/drain/into_iter (partially consumed)/dedup/retain/'
                            'forgotten Drain and DrainFilter/zero-sized elements/into_bump_slice/arena reset. Non-panicking paths only. IntoIter over zero-sized elements reaches a '
                            'construct Kani cannot model (arithmetic on dangling pointers) and is not exercised.'),
    'C17': dict(v=['boxops'], level='model_checking',
                k_quick=['k_box_roundtrips', 'k_box_drop_once', 'k_box_slices_arrays', 'k_box_from_vec_then_alloc', 'k_box_zst_slice_to_array'],
                k_thorough=['k_box_downcast', 'k_vec_shrink_moves'],
                technique='bounded model checking (Kani) of the real Box code for fixed type instances with symbolic values',
                explanation='BOUNDED in type instances (u32, [u32;3], [u8;3], (), dyn Any, a drop-counting type): value round trips through into_inner/into_raw/from_raw/leak/pin_in, '
                            'array<->slice conversions incl. refused lengths, Vec->boxed slice followed by further arena allocations, downcast hit and miss, drop exactly once, and '
                            'the bump finger unchanged by Box drop.'),
    'C16': dict(v=['vecpanic', 'strretain', 'drainfilter', 'dedup', 'vecops'], level='proof', k_quick=['k_cb_retain_len_zero'], k_thorough=['k_drop_forgotten_iterators'],
                technique='Verus callback-point contracts on the real truncate/extend_with bodies (what an unwind would restore); partial',
                explanation='PARTIAL. Neither Verus nor Kani can execute an unwind. For the operations that protect themselves with a scope guard (Vec::truncate, '
                            'and through it clear/resize-shrink/dedup*; Vec::extend_with, i.e. resize-grow/extend_from_slice; String::retain; DrainFilter::next/drop, i.e. drain_filter and Vec::retain; the swap-only compaction loop behind dedup/dedup_by/dedup_by_key) every call into user code (element '
                            'destructor, Clone, predicate) carries the precondition "the length the guard would restore if this call panicked covers only live slots / the '
                            'compacted valid prefix"; it is discharged on the real bodies for all lengths. Operations guarded by other means (drain/'
                            'splice/IntoIter drops, arena slice fills, Box) are NOT decided.',
                assumptions=['element values are abstracted to slot indices (rewrite R16); Vec::reserve is an assumed shim in this unit']),
    'C18': dict(v=VR, level='proof', k_quick=['k_vec_shrink_moves'], k_thorough=['k_vec_reserve_shrink_small', 'k_ncmd'],
                technique='Verus: capacity postcondition of the constructor, chunk_capacity spec + fast-path completeness; growth policy by Kani; RawVec arithmetic by Verus',
                explanation='try_with_min_align_and_capacity(c) is verified to return an arena whose current chunk has finger - data >= c; chunk_capacity returns finger - data and '
                            'fast.complete says every request with rup(size) <= that fits. "New chunk >= 2x previous" is a bounded Kani check of the real slow path.'),
    'C19': dict(v=VR, level='proof', k_quick=['k_ovf_vec'], k_thorough=['k_ncmd', 'k_ncmd_m16', 'k_round_up_to'],
                technique='Verus: checked arithmetic obligations for all sizes up to usize::MAX; Kani on the generic entry points at the refusing side',
                explanation='round_up_to/layout_from_size_align/new_chunk_memory_details/grow are verified to refuse exactly the unrepresentable sizes and never to wrap; on success the '
                            'reserved extent equals the request.'),
    'C20': dict(v=V, scans=['c20'], level='proof', k_quick=[], k_thorough=['k_fast_empty', 'k_rewind_new_chunk'],
                technique='Verus write-permission obligations (the shared sentinel is never written) + frame clauses + source scan for global state; sequential argument only',
                explanation='Every footer write goes through a shim whose precondition is "not the static sentinel"; all of them are discharged, so no arena operation writes shared '
                            'memory; frame clauses confine each operation to its own Bump value, its own chunks and the allocator ledger; a scan shows EMPTY_CHUNK is the only static. '
                            'Thread schedules themselves are not modelled (assumption: disjoint footprints commute; the global allocator is thread-safe).'),
}

COMMON_ASSUMPTIONS = [
    '64-bit usize (global size_of usize == 8); 32-bit targets are out of scope',
    'rewrite table R0..R14 of DESIGN.md section 2.1 (pointers are their addresses; Cell<X> is X; footers live in a ghost map '
    'indexed by address; unsafe blocks are plain blocks whose safety conditions are the requires of the shims; Option/Result combinators are their defining match)',
    'the global allocator obeys the contract of the `alloc`/`dealloc` shims (fresh, aligned, disjoint blocks; null on failure)',
    'the linker places static EMPTY_CHUNK at an address aligned to the alignment of its type (EMPTY_ALIGN extracted from the source); '
    'nothing else is assumed about that address',
    'std specs assumed in the prelude: Layout::from_size_align, usize::{next_power_of_two,is_power_of_two,abs_diff}, '
    'Result::unwrap_or_else; vstd specs of checked_add/checked_mul/wrapping_sub/Ord::{max,cmp}/Option combinators',
    'debug-assertions build is the reference for "panics" (debug_assert! is a proof obligation, overflow is an obligation)',
    'the sum of the sizes of blocks held cannot exceed usize::MAX (address-space argument) where new_chunk adds to allocated_bytes',
    'soundness of Verus 0.2026.09.13 / Z3, Kani 0.68 / CBMC 6.11',
]
