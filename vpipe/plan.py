"""Per-property plan: which Engine V units and which Engine K harnesses decide each property.

V obligations are attached to properties by the `// @ob Cxx name` tags in the contract templates, so nothing
about V is listed here except the unit names.  K harness names refer to functions in /verif/kani/harness/*.rs.
"""

PLAN = {
    # id: dict(v_units, k_quick, k_thorough, level, title)
    'C01': dict(v=['arena'], k_quick=[], k_thorough=[], level='proof'),
    'C04': dict(v=['arena'], k_quick=[], k_thorough=[], level='proof'),
}

COMMON_ASSUMPTIONS = [
    '64-bit usize (global size_of usize == 8); 32-bit targets are out of scope',
    'rewrite table R1..R12 of DESIGN.md section 2.1 (pointers are their addresses; Cell<X> is X; footers live in a ghost map '
    'indexed by address; unsafe blocks are plain blocks whose safety conditions are the requires of the shims)',
    'the global allocator obeys the contract of the `alloc`/`dealloc` shims (fresh, aligned, disjoint blocks; null on failure)',
    'the linker places static EMPTY_CHUNK at an address aligned to the alignment of its type (EMPTY_ALIGN extracted from the source); '
    'nothing else is assumed about that address',
    'std specs assumed in the prelude: Layout::from_size_align, usize::{next_power_of_two,is_power_of_two,abs_diff}, '
    'Result::unwrap_or_else; vstd specs of checked_add/checked_mul/wrapping_sub/Ord::{max,cmp}/Option combinators',
    'debug-assertions build is the reference for "panics" (debug_assert! is a proof obligation, overflow is an obligation)',
    'soundness of Verus 0.2026.09.13 / Z3',
]
