"""Per-property plan: which Engine V units, source scans and Engine K harnesses decide each property.

V obligations are attached to properties by the `// @ob Cxx name` tags in the contract templates (and on the shim
preconditions in the prelude), so nothing about V is listed here except the unit names.  K harness names refer to
functions in /verif/kani/harness/*.rs; they are BOUNDED stand-ins unless marked loop-free/full-domain in DESIGN.md.
"""

V = ['arena']
VR = ['arena', 'rawvec']
VRV = ['arena', 'rawvec', 'vecops']

PLAN = {
    'C01': dict(v=V, level='proof',
                k_quick=['k_fast_448', 'k_dealloc'], k_thorough=['k_fast_448_m8', 'k_fast_448_m16', 'k_fast_64_m2', 'k_fast_64_m4', 'k_fast_empty', 'k_dealloc_m8', 'k_grow', 'k_shrink', 'k_round_up_to', 'k_round_down_to', 'k_round_ptr'],
                technique='deductive verification (Verus) of the real allocation functions against placement contracts + representation invariant; Kani memory-level stand-in',
                explanation='Every allocating function (fast path, dispatcher, new_chunk, dealloc, shrink, grow, rewind regions, reset) is verified against a contract that '
                            'places the returned block inside [data, old finger) of a chunk held in the ledger, below the footer, with the frame "only the finger of the current '
                            'chunk changed"; the representation invariant (cur_inv + list_wf) is established by the constructors and preserved by every operation, and the step '
                            'lemma lemma_list_ptr_step lifts this to all histories. Unbounded: all sizes, alignments, MIN_ALIGN, chunk addresses. The Kani harnesses add CBMC '
                            'pointer checks on real memory for two chunk geometries (bounded).'),
    'C02': dict(v=V, level='model_checking',
                k_quick=['k_shrink', 'k_grow', 'k_fill_copy_clone', 'k_fill_with_order'], k_thorough=['k_shrink_odd', 'k_shrink_m8', 'k_shrink_align', 'k_shrink_notlast', 'k_grow_m8', 'k_grow_align', 'k_grow_notlast', 'k_glue_grow_zeroed', 'k_fill_str', 'k_rewind_keeps_inner_allocs'],
                technique='Verus: address ranges of every copy and every element store of the generic slice/value workers, initialiser call order, frame; byte contents by bounded Kani harnesses',
                explanation='PARTIAL at byte level. Proof (unbounded, all T via symbolic size/alignment, all lengths): the seven slice workers alloc_slice_{fill_with,try_fill_with,copy,clone} and their try_ twins are verified against a ghost log: the initialiser is called exactly once per index in index order (also when it re-enters the arena and allocates), element k is stored at slot k of the reserved block with the value of call k, every store lies inside the block reserved for the slice and inside memory the arena holds, aligned for T; copies in shrink/grow have verified source/destination ranges (non-overlap, length, inside own block); placement obligations (C01) are counted here too because an overlapping block is a block whose bytes another owner changes. Byte-level read-back, preserved prefixes and untouched neighbours are BOUNDED Kani harnesses (blocks of at most 8 bytes, slices of at most 3 elements, one 448-byte chunk).'),
    'C03': dict(v=V, scans=['c03'], level='proof',
                k_quick=['k_new_chunk', 'k_list_1'], k_thorough=['k_new_chunk_64', 'k_list_0', 'k_list_2', 'k_list_3'],
                technique='Verus: ledger ghost state of the global allocator; dealloc shim requires the recorded (ptr, layout); unbounded chunk-list induction (ghost depth)',
                explanation='new_chunk records exactly the (ptr, layout) the allocator returned; every global dealloc call is proved to pass a block that is in the ledger with '
                            'that layout and removes it (so never twice); dealloc_chunk_list is verified with a loop invariant over a list of ANY length to return exactly the '
                            'blocks of the list and to stop at the sentinel; Drop returns the whole list, reset all but the head; a source scan shows these are the only routes '
                            'to the global allocator. Moves between threads and "no reference alive" are ownership facts outside the technique (C05).'),
    'C04': dict(v=V, level='proof', k_quick=[], k_thorough=['k_fast_448_m16', 'k_fast_448_m8', 'k_shrink_m8', 'k_grow_m8', 'k_dealloc_m8'],
                technique='deductive verification (Verus, bit-vector lemmas) of alignment postconditions for all MIN_ALIGN, sizes, alignments and chunk base residues',
                explanation='aligned(p, layout.align) and aligned(p, MIN_ALIGN) are postconditions of the fast path, shrink, grow and the dispatchers; aligned(finger, MIN_ALIGN) '
                            'is part of the invariant, established by the constructors (needs the alignment of the static sentinel, extracted from its #[repr]) and new_chunk, and '
                            'preserved by dealloc/shrink/grow/rewind/reset. The constructors are proved to return only if MIN_ALIGN is a power of two <= 16.'),
    'C06': dict(v=V, level='proof', k_quick=['k_list_1'], k_thorough=['k_list_0', 'k_list_2', 'k_list_3'],
                technique='Verus contract of the real reset() over an unbounded chunk list + fast-path completeness',
                explanation='reset() is verified: chunk-less => nothing changes; otherwise finger == footer (iteration slice empty, chunk_capacity == usable), prev == sentinel, '
                            'ledger == old ledger minus the older chunks, limit and footer unchanged, accounting reset; the invariant holds again so the contract applies to any '
                            'later history. fast.complete (Some <=> fits) gives "hands out the full capacity again without the global allocator".'),
    'C07': dict(v=V, level='proof', k_quick=['k_limit_remaining'], k_thorough=[],
                technique='Verus contracts on the limit arithmetic, the slow path (unbounded loop, limit never exceeded) and fast-path completeness; Kani loop-free full-domain harness for the headroom arithmetic',
                explanation='allocation_limit_remaining / chunk_fits_under_limit are verified against the property (headroom is Some while a limit is set, zero when over); the fast path is complete and independent of the limit; the real alloc_layout_slow is verified (iterator pipeline desugared, R15) to reach new_chunk only for candidates admitted by the limit filter, so the bytes held never exceed the limit; new_chunk accounts exactly the usable bytes. k_limit_remaining is a loop-free harness over the full input domain (complete, not bounded).'),
    'C08': dict(v=V, level='proof', k_quick=['k_list_1'], k_thorough=['k_list_0', 'k_list_2', 'k_list_3', 'k_new_chunk'],
                technique='Verus: accounting clause in the list invariant, induction lemma, contracts of the two getters',
                explanation='list_wf carries allocated_bytes(a) == allocated_bytes(prev) + usable(a); lemma_accounting proves allocated_bytes == total bytes held - n*FOOTER_SIZE by '
                            'induction on a list of any length; new_chunk and reset establish the clause, no other function writes the field (frame clauses); '
                            'allocated_bytes_including_metadata is verified to return total_held (Iterator::count is an assumed shim).'),
    'C09': dict(v=V, level='proof', k_quick=[], k_thorough=['k_ncmd', 'k_ncmd_m16', 'k_round_up_to'],
                technique='Verus: absence of overflow/panic obligations on every try_ path, Err => frame, termination of the slow-path loop (decreases); try_ slice workers under contract',
                explanation='Every arithmetic operation, debug_assert!, unwrap and panic shim on the try_ paths is a discharged obligation for all inputs; Err/None postconditions state that nothing changed (arena, ledger, and for the slice workers: no initialiser call, no store); infallible wrappers return only what the fallible twin returns in Ok; the halving loop of the slow path terminates (decreases; finding F8). Allocator refusal is part of the assumed alloc contract (may return null at any call).'),
    'C10': dict(v=V, level='proof', k_quick=['k_list_1'], k_thorough=['k_list_2', 'k_list_3', 'k_try_fill_new_chunk'],
                technique='Verus contracts of ChunkRawIter::next, ChunkIter::next (the safe wrapper), as_raw_parts over the unbounded list + no-padding clause of the fast path',
                explanation='next() of the raw iterator is verified to yield [finger, footer) of the current chunk and to step to prev, stopping exactly at the sentinel, for a list of any length; the safe ChunkIter::next is extracted too and verified to yield exactly what the raw iterator yields, each slice inside one held block; fast.no_padding shows uniform allocations are adjacent; the release path of a failed slice fill moves only the finger, and only over the failed slice. Kani compares both iterators on 0-3 chunks (bounded).'),
    'C11': dict(v=V, level='proof', k_quick=['k_rewind', 'k_try_fill_releases', 'k_rewind_keeps_inner_allocs', 'k_try_fill_new_chunk', 'k_rewind_new_chunk'], k_thorough=['k_rewind_m16'],
                technique='Verus on the mechanically extracted Err arms of alloc_try_with/try_alloc_try_with, the whole alloc_slice_try_fill_with / try_alloc_slice_* workers + dealloc contract; ownership of the error value by Kani',
                explanation='The rewind regions are verified against rewind_post (not last => nothing changes; same chunk => finger restored; new chunk => whole chunk free again). alloc_slice_try_fill_with is verified as a whole: the initialiser is not run when the reservation fails, the error handed back is the one the failing call produced and no call follows it, the failed slice is released exactly when it still is the most recent allocation and blocks the initialiser allocated and kept stay reserved. Exactly-once delivery of E as a VALUE (not dropped, not duplicated) is checked by Kani with a drop-counting error type (bounded).'),
    'C12': dict(v=V, level='proof', k_quick=['k_shrink', 'k_grow', 'k_glue_alloc_shrink_dealloc', 'k_glue_grow_zeroed'], k_thorough=['k_shrink_odd', 'k_shrink_m8', 'k_shrink_align', 'k_shrink_notlast', 'k_grow_m8', 'k_grow_align', 'k_grow_notlast', 'k_dealloc'],
                technique='Verus contracts of dealloc/shrink/grow for arbitrary old/new layouts AND of the real Alloc / Allocator trait implementations for &Bump (alloc, dealloc, realloc, allocate, deallocate, shrink, grow, grow_zeroed); contents by Kani',
                explanation='Result fits the new layout (size, both alignments), Err => nothing changed, in-place moves stay inside the old block and never overlap source and destination, fresh blocks are disjoint from the old one; deallocate of a non-last block is a no-op and never touches memory held. The trait glue is extracted too: the returned slice has exactly the new size, realloc dispatches to shrink/grow correctly and refuses unrepresentable sizes, grow_zeroed zero-fills exactly [old size, new size) of the block it returns, errors leave block and arena untouched. The RawVec side (unit rawvec) is checked against the same realloc contract. Byte preservation itself (first min(old,new) bytes) is BOUNDED Kani (blocks <= 8 bytes) on top of the verified copy ranges.'),
    'C13': dict(v=['rawvec', 'dedup', 'vecops'], level='proof',
                k_quick=['k_vec_insert_remove', 'k_vec_swap_remove_truncate', 'k_vec_drain', 'k_vec_append_split_off', 'k_vec_push_pop_grow', 'k_vec_shrink_moves', 'k_vec_insert_oob', 'k_drop_dedup'],
                k_thorough=['k_vec_insert_remove_ends', 'k_vec_drain_wide', 'k_vec_reserve_shrink_small', 'k_vec_drain_filter', 'k_vec_zst', 'k_ovf_vec', 'k_vec_remove_oob',
                            'k_vec_swap_remove_oob', 'k_vec_split_off_oob', 'k_vec_drain_oob', 'k_vec_drain_inverted', 'k_drop_dedup', 'k_box_from_vec_then_alloc'],
                technique='Verus: 40 real Vec/Drain/IntoIter/RawVec functions against mathematical sequence specifications over a ghost heap of token buffers (unbounded); bounded Kani harnesses for value-level behaviour of the rest',
                explanation="PARTIAL. Proof (all lengths, capacities, indices, element types incl. zero-sized): push, pop, insert, remove, swap_remove, truncate, clear, append(_elements), split_off, extend, extend_from_slice(_copy), reserve, set_len, with_capacity_in, drain + Drain::{next,next_back,drop,fill,move_tail}, into_iter + IntoIter::{next,next_back,drop}, Vec::drop are verified against std's documented sequence semantics (view' == view.insert(i, x) ...), with every raw-pointer primitive carrying std's safety conditions (inside the buffer, non-overlap, no use of a pointer across a growth), neighbours untouched (frame), capacity never below length, and panics ONLY where std panics (ghost allow_panic discipline; finding F9). RawVec growth arithmetic (capacity promise, doubling, overflow refused, Err leaves vector and buffer untouched) and the dedup compaction loop are proved too. Vec::reserve as called from these functions is an assumed shim whose clauses are the verified postconditions of the rawvec unit and of Bump::grow. NOT proved: retain/dedup/splice as whole value-level operations, comparison/formatting impls, from_iter_in: BOUNDED Kani harnesses (vectors of length <= 3, concrete shapes, symbolic element values) against a sequence model."),
    'C14': dict(v=['strbounds', 'strretain', 'strops'], level='proof',
                k_quick=['k_lossy_chunk_3', 'k_width_table', 'k_str_insert_mid', 'k_str_truncate_split', 'k_str_drain', 'k_str_insert_non_boundary'],
                k_thorough=['k_lossy_chunk_2', 'k_lossy_chunk_4', 'k_str_insert_ends', 'k_str_remove', 'k_str_lossy_truncated', 'k_str_truncate_non_boundary',
                            'k_str_split_off_non_boundary', 'k_str_remove_past_end'],
                technique='Verus: String byte surgery (push, pop, truncate, remove, insert, insert_str, split_off, drain, from_str_in ...) on top of the verified Vec<u8> functions, over a DEFINED notion of valid UTF-8 / char boundary / encoding whose algebra is proved (no axioms); Kani: forked lossy decoder on all inputs of length <= 4',
                explanation='PARTIAL. Proof (all texts, indices, chars): 15 real String functions are verified to compute exactly the byte sequence std documents, to perform their char-boundary checks so that std\'s panics are reproduced (and no others), to stay inside the buffer and to leave valid UTF-8 behind; the Vec<u8> operations they call are the real Vec functions re-verified in the same unit. "valid UTF-8" (Unicode table 3-7), "char boundary" (std\'s definition) and "encoding of c" (RFC 3629) are DEFINED in the unit and the facts the operations need (concatenation and splitting at a boundary preserve validity; every encoding is one well-formed sequence) are PROVED there by induction / bit-vector reasoning; only the contracts of std\'s own chars()/is_char_boundary/encode_utf8/len_utf8 are trusted. replace_range\'s boundary assertions and retain (incl. its panic guard) are proved in their own units. BOUNDED / complete-for-small-inputs (Kani): the forked lossy decoder\'s first chunk against the Unicode definition on ALL byte strings of length <= 4, the 256-entry width table (complete), single operations on the text "aé€". Not decided: from_utf16_in, from_utf8_lossy_in as a whole loop.'),
    'C15': dict(v=['drainfilter', 'intoiter', 'rawvec', 'dedup', 'vecops', 'boxops'], level='proof',
                k_quick=['k_drop_vec_ops', 'k_drop_iters', 'k_drop_forgotten_iterators', 'k_drop_no_destructors', 'k_drop_dedup', 'k_drop_zst'],
                k_thorough=['k_drop_dedup_retain', 'k_box_drop_once', 'k_box_slices_arrays'],
                technique='Verus: destructor-run ledger (multiset) in the contracts of the real Vec/Drain/IntoIter/DrainFilter/Box functions (unbounded); bounded Kani harnesses with a per-element drop counter',
                explanation='PARTIAL (non-panicking paths). Proof: truncate/clear/Vec::drop/Drain::drop/IntoIter::drop run the destructor of exactly the elements they let go of, each once (ghost multiset log), moved-out elements (pop, remove, swap_remove, drain/into_iter items) leave the view so that no owner remains, DrainFilter exposes exactly the live slots, the dedup loop only swaps; Box: from_raw/into_raw/leak/into_inner/drop and the array<->slice, downcast and Vec->boxed-slice conversions keep exactly one owner per cell and never run or skip a destructor. BOUNDED (Kani): vectors of <= 3 elements whose Drop bumps a per-id counter, forgotten iterators, into_bump_slice/arena reset never running destructors.'),
    'C17': dict(v=['boxops'], level='proof',
                k_quick=['k_box_roundtrips', 'k_box_drop_once', 'k_box_slices_arrays', 'k_box_from_vec_then_alloc', 'k_box_zst_slice_to_array'],
                k_thorough=['k_box_downcast', 'k_vec_shrink_moves'],
                technique='Verus: Box ownership transfer (cells / owners / destructor runs / moves-out) and trait forwarding on the real boxed.rs functions; bounded Kani harnesses for value round trips of fixed type instances',
                explanation="PARTIAL. Proof: from_raw, into_raw, leak, into_inner, new_in, pin_in, Drop, Pin::from, downcast (both flavours), [T;N]<->[T] conversions, Vec::into_boxed_slice, Deref/DerefMut are verified to name the same cell and to leave owners / destructor runs / moves-out exactly as std's Box documents (one owner before and after, drop runs the destructor once and releases nothing); the comparison, Hasher and ExactSizeIterator impls are verified to forward to the SAME method of the inner value with the same arguments, exactly once. BOUNDED in type instances (Kani): value round trips through into_inner/into_raw/from_raw/leak/pin_in for u32, [u32;3], [u8;3], (), dyn Any, a drop-counting type; iterate/poll/format impls are not extracted."),
    'C16': dict(v=['vecpanic', 'strretain', 'drainfilter', 'dedup', 'vecops'], level='proof', k_quick=['k_cb_retain_len_zero'], k_thorough=['k_drop_forgotten_iterators'],
                technique='Verus callback-point contracts on the real bodies (what an unwind would restore / expose at every call into user code); partial',
                explanation='PARTIAL. Neither Verus nor Kani can execute an unwind. What is proved, for all lengths: at every call into user code (element destructor, Clone, predicate, user iterator, initialiser closure) the state an unwind would leave is safe: Vec::truncate (the slot is no longer counted when its destructor runs; => clear, shrinking resize, dedup*), Vec::extend_with (length covers only initialised slots; => growing resize), Drain::fill / Splice::drop (length covers only initialised slots whenever the replacement iterator runs), Drain::drop (no moved-out slot is reachable while element destructors run), String::retain (guard truncates to the compacted valid prefix), DrainFilter::next/drop (=> drain_filter, Vec::retain), the swap-only compaction loop behind dedup*, and the arena slice/value workers (the arena invariant holds whenever the initialiser runs, so the arena stays usable). These contracts are tied to the SHAPE of the guard code: a change that restructures a guard is answered UNDECIDED, not violation (seeds R3-C16-1/2). Not decided: Box, IntoIter element drops during unwinding, unwinding itself.',
                assumptions=['element values are abstracted to slot indices (rewrite R16); Vec::reserve is an assumed shim in this unit']),
    'C18': dict(v=VRV, level='proof', k_quick=['k_vec_shrink_moves'], k_thorough=['k_vec_reserve_shrink_small', 'k_ncmd'],
                technique='Verus: capacity postcondition of the constructor, chunk_capacity spec + fast-path completeness; growth policy by Kani; RawVec arithmetic by Verus',
                explanation='try_with_min_align_and_capacity(c) is verified to return an arena whose current chunk has finger - data >= c; chunk_capacity returns finger - data and '
                            'fast.complete says every request with rup(size) <= that fits. "New chunk >= 2x previous" is a bounded Kani check of the real slow path.'),
    'C19': dict(v=VR, level='proof', k_quick=['k_ovf_vec'], k_thorough=['k_ncmd', 'k_ncmd_m16', 'k_round_up_to'],
                technique='Verus: checked arithmetic obligations for all sizes up to usize::MAX; Kani on the generic entry points at the refusing side',
                explanation='round_up_to/layout_from_size_align/new_chunk_memory_details/grow are verified to refuse exactly the unrepresentable sizes and never to wrap; on success the '
                            'reserved extent equals the request.'),
    'C20': dict(v=V, scans=['c20'], level='proof', k_quick=[], k_thorough=['k_fast_empty', 'k_rewind_new_chunk'],
                technique='Verus write-permission obligations (the shared sentinel is never written) + frame clauses + source scan for global state; sequential argument only',
                explanation='Every footer write goes through a shim whose precondition is "not the static sentinel"; all of them are discharged, so no arena operation writes shared '
                            'memory; frame clauses confine each operation to its own Bump value, its own chunks and the allocator ledger; a scan shows EMPTY_CHUNK is the only static. '
                            'Thread schedules themselves are not modelled (assumption: disjoint footprints commute; the global allocator is thread-safe).'),
}

COMMON_ASSUMPTIONS = [
    '64-bit usize (global size_of usize == 8); 32-bit targets are out of scope',
    'rewrite table R0..R14 of DESIGN.md section 2.1 (pointers are their addresses; Cell<X> is X; footers live in a ghost map '
    'indexed by address; unsafe blocks are plain blocks whose safety conditions are the requires of the shims; Option/Result combinators are their defining match)',
    'the global allocator obeys the contract of the `alloc`/`dealloc` shims (fresh, aligned, disjoint blocks; null on failure)',
    'the linker places static EMPTY_CHUNK at an address aligned to the alignment of its type (EMPTY_ALIGN extracted from the source); '
    'nothing else is assumed about that address',
    'std specs assumed in the prelude: Layout::from_size_align, usize::{next_power_of_two,is_power_of_two,abs_diff}, '
    'Result::unwrap_or_else; vstd specs of checked_add/checked_mul/wrapping_sub/Ord::{max,cmp}/Option combinators',
    'debug-assertions build is the reference for "panics" (debug_assert! is a proof obligation, overflow is an obligation)',
    'the sum of the sizes of blocks held cannot exceed usize::MAX (address-space argument) where new_chunk adds to allocated_bytes',
    'soundness of Verus 0.2026.09.13 / Z3, Kani 0.68 / CBMC 6.11',
]
