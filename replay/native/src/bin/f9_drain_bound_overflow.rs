//! F9 (C13/C14): range bounds that overflow `usize` when made exclusive must panic, as in std.
//! Without overflow checks (the default of release builds) `n + 1` wrapped to 0, so
//!   v.drain(..=usize::MAX)                         returned an empty Drain instead of panicking,
//!   v.drain((Excluded(usize::MAX), Unbounded))     drained the WHOLE vector instead of panicking,
//!   s.replace_range((Excluded(usize::MAX), Unbounded), "x")  replaced the whole string instead of panicking.
//! Run with `cargo run --release --bin f9_drain_bound_overflow` (exit 0 = behaves like std, exit 1 = defect shown).
use bumpalo::collections::{String, Vec};
use bumpalo::Bump;
use std::ops::Bound::{Excluded, Unbounded};
use std::panic::{catch_unwind, AssertUnwindSafe};

fn main() {
    std::panic::set_hook(Box::new(|_| {}));
    let b = Bump::new();
    let mut bad = 0;

    // std reference
    let mut sv = vec![1, 2, 3];
    assert!(catch_unwind(AssertUnwindSafe(|| { sv.drain(..=usize::MAX); })).is_err());
    let mut sv = vec![1, 2, 3];
    assert!(catch_unwind(AssertUnwindSafe(|| { sv.drain((Excluded(usize::MAX), Unbounded)); })).is_err());
    let mut ss = std::string::String::from("abc");
    assert!(catch_unwind(AssertUnwindSafe(|| { ss.replace_range((Excluded(usize::MAX), Unbounded), "x"); })).is_err());

    let mut v = Vec::new_in(&b);
    v.extend_from_slice_copy(&[1, 2, 3]);
    let r = catch_unwind(AssertUnwindSafe(|| { v.drain(..=usize::MAX); }));
    if r.is_ok() { println!("Vec::drain(..=usize::MAX) returned instead of panicking; vector now {:?}", v); bad += 1; }

    let mut v = Vec::new_in(&b);
    v.extend_from_slice_copy(&[1, 2, 3]);
    let r = catch_unwind(AssertUnwindSafe(|| { v.drain((Excluded(usize::MAX), Unbounded)); }));
    if r.is_ok() { println!("Vec::drain((Excluded(usize::MAX), Unbounded)) returned instead of panicking; vector now {:?}", v); bad += 1; }

    let mut s = String::from_str_in("abc", &b);
    let r = catch_unwind(AssertUnwindSafe(|| { s.drain((Excluded(usize::MAX), Unbounded)); }));
    if r.is_ok() { println!("String::drain((Excluded(usize::MAX), Unbounded)) returned instead of panicking; string now {:?}", s); bad += 1; }

    let mut s = String::from_str_in("abc", &b);
    let r = catch_unwind(AssertUnwindSafe(|| { s.replace_range((Excluded(usize::MAX), Unbounded), "x"); }));
    if r.is_ok() { println!("String::replace_range((Excluded(usize::MAX), Unbounded), \"x\") returned instead of panicking; string now {:?}", s); bad += 1; }

    if bad > 0 { println!("DEFECT: {} call(s) std rejects with a panic were accepted", bad); std::process::exit(1); }
    println!("ok: overflowing range bounds panic as in std");
}
