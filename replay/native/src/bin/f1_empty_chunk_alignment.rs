// C04: pointer from an arena that holds no memory must honour MIN_ALIGN = 16
use bumpalo::Bump;
use std::alloc::Layout;
fn main() {
    let b = Bump::<16>::with_min_align();
    // zero-sized request with alignment 16 on a chunk-less arena
    let r = std::panic::catch_unwind(std::panic::AssertUnwindSafe(|| b.alloc_layout(Layout::from_size_align(0, 16).unwrap())));
    match r {
        Ok(p) => {
            let a = p.as_ptr() as usize;
            println!("ptr = {:#x}, ptr % 16 = {}", a, a % 16);
            if a % 16 != 0 { println!("VIOLATED: pointer not aligned to MIN_ALIGN=16"); std::process::exit(1); }
        }
        Err(_) => { println!("VIOLATED: debug assertion fired (bump pointer of the empty chunk not aligned to MIN_ALIGN)"); std::process::exit(1); }
    }
    println!("ok");
}
