//! F10 (C13): `Vec::extend_from_slices_copy` adds up the lengths of the source slices with a plain `sum()`.  Without overflow
//! checks (the default of release builds) the sum WRAPS, so too little (possibly nothing) is reserved, and the unchecked copies
//! that follow set the length past usize::MAX (wrapping again).  With a zero-sized element type this is reachable with real
//! slices:  [(); usize::MAX] followed by [(); 3]  -- std (extend_from_slice twice) panics with "capacity overflow", bumpalo
//! returned normally with a length of 2.  For element types with a size the same wrap makes the unchecked copies write past
//! the reserved buffer (needs slices that alias and add up to >= 2^64 elements).
//! Run with `cargo run --release --bin f10_slices_copy_sum_overflow` (exit 0 = behaves like std, exit 1 = defect shown).
use bumpalo::collections::Vec;
use bumpalo::Bump;
use std::panic::{catch_unwind, AssertUnwindSafe};

static HUGE: [(); usize::MAX] = [(); usize::MAX];

fn main() {
    std::panic::set_hook(Box::new(|_| {}));
    let b = Bump::new();

    // std reference: the second extend must panic (capacity overflow)
    let mut sv: std::vec::Vec<()> = std::vec::Vec::new();
    sv.extend_from_slice(&HUGE);
    assert_eq!(sv.len(), usize::MAX);
    assert!(catch_unwind(AssertUnwindSafe(|| { sv.extend_from_slice(&[(); 3]); })).is_err());

    let mut v: Vec<()> = Vec::new_in(&b);
    let r = catch_unwind(AssertUnwindSafe(|| { v.extend_from_slices_copy(&[&HUGE[..], &[(); 3][..]]); }));
    if r.is_ok() {
        println!("extend_from_slices_copy(&[[(); usize::MAX], [(); 3]]) returned instead of panicking; len is now {}", v.len());
        println!("DEFECT: the summed length wrapped around");
        std::process::exit(1);
    }
    println!("ok: an overflowing total length panics as in std");
}
