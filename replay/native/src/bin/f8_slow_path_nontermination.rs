// C09: try_ methods return (Ok or Err) for every request, even when the global allocator refuses everything.
// A zero-sized, over-aligned request on a fresh arena with a small allocation limit makes the halving loop of
// alloc_layout_slow reach base_size == 0, where the small-limit bypass keeps yielding the same (zero) candidate forever
// as long as the global allocator keeps refusing it.
use bumpalo::Bump;
use std::alloc::{GlobalAlloc, Layout, System};
use std::sync::atomic::{AtomicBool, AtomicUsize, Ordering};

struct Refusing;
static REFUSE: AtomicBool = AtomicBool::new(false);
static CALLS: AtomicUsize = AtomicUsize::new(0);
unsafe impl GlobalAlloc for Refusing {
    unsafe fn alloc(&self, l: Layout) -> *mut u8 {
        if REFUSE.load(Ordering::SeqCst) && l.align() >= 4096 { CALLS.fetch_add(1, Ordering::SeqCst); return std::ptr::null_mut(); }
        System.alloc(l)
    }
    unsafe fn dealloc(&self, p: *mut u8, l: Layout) { System.dealloc(p, l) }
}
#[global_allocator]
static A: Refusing = Refusing;

fn main() {
    let (tx, rx) = std::sync::mpsc::channel();
    std::thread::spawn(move || {
        let b = Bump::new();
        b.set_allocation_limit(Some(10));
        REFUSE.store(true, Ordering::SeqCst);
        let r = b.try_alloc_layout(Layout::from_size_align(0, 4096).unwrap()).is_ok();
        REFUSE.store(false, Ordering::SeqCst);
        let _ = tx.send(r);
    });
    match rx.recv_timeout(std::time::Duration::from_secs(5)) {
        Ok(r) => println!("try_alloc_layout returned is_ok={} after {} refused requests\nok", r, CALLS.load(Ordering::SeqCst)),
        Err(_) => {
            println!("try_alloc_layout(Layout(0,4096)) with limit 10 has not returned after 5 s; the global allocator was asked {} times", CALLS.load(Ordering::SeqCst));
            println!("VIOLATED: a try_ method fails to terminate when the global allocator refuses");
            std::process::exit(1);
        }
    }
}
