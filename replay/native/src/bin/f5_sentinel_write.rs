// C20: two threads, each with its own fresh arena, zero-sized allocations.  Run under Miri to see the data race:
//   cargo +nightly miri run --bin f5_sentinel_write
use bumpalo::Bump;
fn main() {
    let t: Vec<_> = (0..2).map(|_| std::thread::spawn(|| { let b = Bump::new(); for _ in 0..100 { b.alloc(()); } })).collect();
    for h in t { h.join().unwrap(); }
    println!("ok (native run cannot observe the race; use Miri)");
}
