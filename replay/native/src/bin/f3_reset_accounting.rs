// C08: allocated_bytes() / _including_metadata() change only when a chunk is acquired or released
use bumpalo::Bump;
fn main() {
    let mut b = Bump::with_capacity(1000);
    let (a0, m0) = (b.allocated_bytes(), b.allocated_bytes_including_metadata());
    b.reset(); // one chunk held before, the same chunk held after
    let (a1, m1) = (b.allocated_bytes(), b.allocated_bytes_including_metadata());
    println!("before reset: ({}, {}), after reset: ({}, {})", a0, m0, a1, m1);
    if (a0, m0) != (a1, m1) { println!("VIOLATED: accounting changed although the same single chunk is held"); std::process::exit(1); }
    println!("ok");
}
