// C09: try_ methods never panic
use bumpalo::Bump;
use std::alloc::Layout;
fn main() {
    let b = Bump::new();
    b.set_allocation_limit(Some(10));
    let r = std::panic::catch_unwind(std::panic::AssertUnwindSafe(|| b.try_alloc_layout(Layout::from_size_align(0, 4096).unwrap()).is_ok()));
    println!("try_alloc_layout(Layout(0,4096)) with limit 10 -> {:?}", r.as_ref().map_err(|_| "panicked"));
    if r.is_err() { println!("VIOLATED: a try_ method panicked"); std::process::exit(1); }
    println!("ok");
}
