// C16: a panicking predicate inside Vec::drain_filter / retain must never lead to a double drop
use bumpalo::{collections::Vec, Bump};
use std::cell::RefCell;
thread_local! { static DROPS: RefCell<[u32; 8]> = RefCell::new([0; 8]); }
struct D(usize);
impl Drop for D { fn drop(&mut self) { DROPS.with(|d| d.borrow_mut()[self.0] += 1); } }
fn main() {
    let b = Bump::new();
    let mut v = Vec::new_in(&b);
    for i in 0..4 { v.push(D(i)); }
    let mut calls = 0;
    let r = std::panic::catch_unwind(std::panic::AssertUnwindSafe(|| {
        let drained: std::vec::Vec<D> = v.drain_filter(|d| { calls += 1; if calls == 2 { panic!("predicate panics on its 2nd call") } d.0 == 0 }).collect();
        drop(drained);
    }));
    assert!(r.is_err());
    drop(v);
    let counts = DROPS.with(|d| *d.borrow());
    println!("drop counts of ids 0..4 after unwinding and dropping the vector: {:?}", &counts[..4]);
    if counts[..4].iter().any(|&c| c > 1) { println!("VIOLATED: an element was dropped twice"); std::process::exit(1); }
    println!("ok (leaks are allowed)");
}
