// C07: with a limit set below what is already held, no further chunk may be obtained
use bumpalo::Bump;
fn main() {
    let b = Bump::with_capacity(1000);
    let held0 = b.allocated_bytes();
    b.set_allocation_limit(Some(100));
    let r = b.try_alloc([0u8; 5000]);
    let held1 = b.allocated_bytes();
    println!("held before = {}, limit = 100, try_alloc([0u8;5000]).is_ok() = {}, held after = {}", held0, r.is_ok(), held1);
    if held1 > held0 { println!("VIOLATED: a chunk was obtained although held bytes already exceed the limit"); std::process::exit(1); }
    println!("ok");
}
