// C11: after a failed initialiser that allocated nothing, the same layout is served without new memory
use bumpalo::Bump;
fn main() {
    let b = Bump::new();
    b.alloc(1u8); // first (small) chunk
    let held0 = b.allocated_bytes();
    let r: Result<&mut [u8; 4000], i32> = b.alloc_try_with(|| Err(7)); // forces a new chunk, then fails
    assert!(r.is_err());
    let held1 = b.allocated_bytes();
    let cap = b.chunk_capacity();
    let _again: Result<&mut [u8; 4000], i32> = b.alloc_try_with(|| Err(7));
    let held2 = b.allocated_bytes();
    println!("held {} -> {} (chunk for the failed value), capacity after failure = {}, held after retry = {}", held0, held1, cap, held2);
    if held2 != held1 { println!("VIOLATED: the retry of the same layout obtained more memory"); std::process::exit(1); }
    println!("ok");
}
