// C16: a panicking predicate inside String::retain must leave valid UTF-8 behind
use bumpalo::{collections::String, Bump};
fn main() {
    let b = Bump::new();
    let mut s = String::from_str_in("x\u{e9}ab", &b);
    let mut calls = 0;
    let r = std::panic::catch_unwind(std::panic::AssertUnwindSafe(|| {
        s.retain(|c| { calls += 1; if calls == 3 { panic!("predicate panics on its 3rd call") } c != 'x' });
    }));
    assert!(r.is_err());
    let bytes = s.as_bytes().to_vec();
    let ok = std::str::from_utf8(&bytes).is_ok();
    println!("after the unwind the string holds {:x?}; valid UTF-8: {}", bytes, ok);
    if !ok { println!("VIOLATED: String holds invalid UTF-8 after a panicking retain predicate"); std::process::exit(1); }
    println!("ok");
}
